#!/bin/bash
# Runs a check against a scratch copy of /repo with a patch applied (never touches /repo).
# usage: mutant.sh <patch.diff|--rev REV> <ID> [quick|thorough]   (extra patches: MUTANT_EXTRA="a.diff b.diff")
set -u
P=$1; ID=$2; TIER=${3:-quick}
D=$(mktemp -d /tmp/mut.XXXXXX)
if [ "$P" = "--rev" ]; then
  REV=$2; ID=$3; TIER=${4:-quick}
  git -C /repo archive "$REV" | tar -x -C "$D"
  # the harness needs the verif hooks: overlay them from HEAD
  for f in internal/verifhook verif_export.go internal/expiration/verif_export.go; do rm -rf "$D/$f"; cp -r /repo/$f "$D/$f"; done
else
  git -C /repo archive HEAD | tar -x -C "$D"
  (cd "$D" && patch -p1 --fuzz=3 -s < "$P") || { echo "mutant.sh: patch does not apply"; rm -rf "$D"; exit 3; }
  for E in ${MUTANT_EXTRA:-}; do (cd "$D" && patch -p1 --fuzz=3 -s < "$E") || { echo "mutant.sh: extra patch does not apply"; rm -rf "$D"; exit 3; }; done
fi
cd /verif
VERIF_REPO="$D" VERIF_NO_EVIDENCE=1 ./check "$ID" "$TIER"
rc=$?
rm -rf "$D" "/verif/.build/alt-$(printf %s "$D" | sha256sum | cut -c1-10)"
exit $rc
