#!/bin/bash
# Round 6: confirm a sub-agent's two changes (A,B under /tmp/seeded_in6/<ID>/) as <ID>-G / <ID>-H and run checks against them.
# usage: round4.sh <ID> [extra property ids to try as well]
cd /verif
ID=$1; shift
for pair in A:K B:L; do
  src=${pair%:*}; dst=${pair#*:}
  [ -f /tmp/seeded_in6/$ID/$src/patch.diff ] || { echo "$ID-$dst: no patch"; continue; }
  python3 tools/seed_verify.py $ID $src --in /tmp/seeded_in6 --as $dst
  if [ -f seeded/$ID-$dst/meta.json ]; then
    python3 - <<PY
import json
p='/verif/seeded/$ID-$dst/meta.json'; m=json.load(open(p)); m['round']=6; json.dump(m,open(p,'w'),indent=1)
PY
    python3 tools/seed_check.py $ID-$dst $ID "$@"
  fi
done
