#!/usr/bin/env python3
"""Confirms a seeded regression produced by a sub-agent and files it under /verif/seeded/.

usage: seed_verify.py <ID> <X> [--no-suite]
  input : /tmp/seeded_in/<ID>/<X>/{patch.diff, demo_*_test.go, NOTES.md}
  steps : scratch copy of /repo HEAD; apply patch; demo must FAIL; unapply; demo must PASS;
          with the patch the existing suite must pass.
  output: /verif/seeded/<ID>-<X>/{patch.diff (regenerated against HEAD), demo, meta.json}
"""
import glob
import json
import os
import re
import shutil
import subprocess
import sys
import tempfile

PKGDIR = {"otter": ".", "otter_test": ".", "hashmap": "internal/hashmap", "queue": "internal/deque/queue", "lossy": "internal/lossy",
          "expiration": "internal/expiration", "deque": "internal/deque", "xmath": "internal/xmath", "stats": "stats", "xsync": "internal/xsync"}
ENV = dict(os.environ)
for k in ("GOSUMDB", "GOTOOLCHAIN"):
    ENV.pop(k, None)
ENV.update({"GOFLAGS": "-mod=mod", "GOPROXY": "off"})


def sh(cmd, cwd, timeout=300):
    try:
        p = subprocess.run(cmd, cwd=cwd, env=ENV, stdout=subprocess.PIPE, stderr=subprocess.STDOUT, text=True, timeout=timeout)
        return p.returncode, p.stdout
    except subprocess.TimeoutExpired as e:
        return 124, (e.stdout or "") + "\nTIMEOUT"


def main():
    pid, x = sys.argv[1], sys.argv[2]
    nosuite = "--no-suite" in sys.argv
    indir = "/tmp/seeded_in"
    if "--in" in sys.argv:
        indir = sys.argv[sys.argv.index("--in") + 1]
    src = f"{indir}/{pid}/{x}"
    if "--as" in sys.argv:  # store under another letter (second round: A->C, B->D)
        x = sys.argv[sys.argv.index("--as") + 1]
    patch = os.path.join(src, "patch.diff")
    demos = glob.glob(os.path.join(src, "*_test.go"))
    if not os.path.exists(patch) or not demos:
        print(f"{pid}-{x}: missing patch or demo")
        sys.exit(2)
    demo = demos[0]
    m = re.search(r"^package\s+(\w+)", open(demo).read(), re.M)
    pkgdir = PKGDIR.get(m.group(1), ".")
    tests = re.findall(r"^func (Test\w+)\(", open(demo).read(), re.M)
    run = "^(" + "|".join(tests) + ")$"
    d = tempfile.mkdtemp(prefix="seedv.")
    res = {"id": f"{pid}-{x}", "property": pid}
    try:
        subprocess.run(f"git -C /repo archive HEAD | tar -x -C {d}", shell=True, check=True)
        subprocess.run(["git", "init", "-q"], cwd=d)
        subprocess.run("git add -A && git -c user.email=a@b -c user.name=x commit -q -m base", shell=True, cwd=d)
        rc, out = sh(["patch", "-p1", "--fuzz=3", "-s", "-i", patch], d)
        if rc != 0:
            res["status"] = "patch-does-not-apply"
            res["detail"] = out[-500:]
            print(json.dumps(res))
            return
        # regenerate the patch against the current HEAD
        newpatch = subprocess.run(["git", "diff"], cwd=d, stdout=subprocess.PIPE, text=True).stdout
        shutil.copy(demo, os.path.join(d, pkgdir, os.path.basename(demo)))
        fails = 0
        for _ in range(3):
            rc, out = sh(["go", "test", "-vet=off", "-count=1", "-timeout", "120s", "-run", run, "./" + pkgdir], d)
            if rc != 0:
                fails += 1
        res["demo_with_change_fail_runs"] = f"{fails}/3"
        demo_fail_out = out[-600:]
        suite_ok = None
        if not nosuite:
            os.remove(os.path.join(d, pkgdir, os.path.basename(demo)))
            for attempt in range(3):
                rc, out = sh(["go", "test", "-vet=off", "-count=1", "-timeout", "100s", "./..."], d, timeout=400)
                shutil.rmtree(os.path.join(d, "ololo"), ignore_errors=True)
                if os.path.exists(os.path.join(d, "ololo")):
                    os.remove(os.path.join(d, "ololo"))
                if rc == 0:
                    suite_ok = True
                    break
                # known pre-existing flakes: retry
                flake = ("TestSaveLoadCache" in out and "timed out" in out) or "TestCache_GetWithSuppressedLoad" in out or "evict_wtinylfu" in out or "rescheduleDrainBuffers" in out
                suite_ok = False
                res["suite_failure_tail"] = "\n".join(l for l in out.splitlines() if l.startswith("--- FAIL") or "panic:" in l)[:400]
                if not flake:
                    break
            res["suite_with_change_passes"] = suite_ok
            shutil.copy(demo, os.path.join(d, pkgdir, os.path.basename(demo)))
        subprocess.run(["git", "checkout", "-q", "--", "."], cwd=d)
        passes = 0
        for _ in range(3):
            rc, out = sh(["go", "test", "-vet=off", "-count=1", "-timeout", "120s", "-run", run, "./" + pkgdir], d)
            if rc == 0:
                passes += 1
        res["demo_without_change_pass_runs"] = f"{passes}/3"
        ok = fails >= 2 and passes == 3 and (nosuite or suite_ok)
        res["status"] = "confirmed" if ok else "rejected"
        if not ok:
            res["demo_output_with_change"] = demo_fail_out
            res["demo_output_without_change"] = out[-600:]
        if ok:
            dst = f"/verif/seeded/{pid}-{x}"
            os.makedirs(dst, exist_ok=True)
            open(os.path.join(dst, "patch.diff"), "w").write(newpatch)
            shutil.copy(demo, os.path.join(dst, os.path.basename(demo)))
            if os.path.exists(os.path.join(src, "NOTES.md")):
                shutil.copy(os.path.join(src, "NOTES.md"), os.path.join(dst, "NOTES.md"))
            meta = {
                "id": f"{pid}-{x}", "breaks_property": pid, "demo_file": os.path.basename(demo), "demo_dir": pkgdir, "demo_tests": tests,
                "confirmed": {"demo_fails_with_change": res["demo_with_change_fail_runs"], "demo_passes_without_change": res["demo_without_change_pass_runs"],
                              "existing_suite_passes_with_change": suite_ok},
                "what_i_ran": ["patch -p1 < patch.diff on a scratch copy of /repo HEAD (outside /repo and /verif)",
                               f"go test -run '{run}' ./{pkgdir} (x3 with the change, x3 without)", "go test ./... with the change (pre-existing flaky tests retried)"],
                "needs_to_manifest": "see NOTES.md (written by the sub-agent that produced the change)",
                "detected_by": {},
            }
            mp = os.path.join(dst, "meta.json")
            if os.path.exists(mp):
                old = json.load(open(mp))
                meta["detected_by"] = old.get("detected_by", {})
                if old.get("needs_to_manifest"):
                    meta["needs_to_manifest"] = old["needs_to_manifest"]
            json.dump(meta, open(mp, "w"), indent=1)
        print(json.dumps(res))
    finally:
        shutil.rmtree(d, ignore_errors=True)


if __name__ == "__main__":
    main()
