#!/usr/bin/env python3
"""Fills the sensitivity tables of DESIGN.md §9 from seeded/*/meta.json, seeded/healed.json and mutants/results.txt."""
import glob, json, os, re
rows = []
for d in sorted(glob.glob("/verif/seeded/C*-*")):
    m = json.load(open(os.path.join(d, "meta.json")))
    det = m.get("detected_by", {})
    hits = [k for k, v in det.items() if v["verdict"] == "DETECTED"]
    miss = [k for k, v in det.items() if v["verdict"] not in ("DETECTED",)]
    own = m["breaks_property"]
    rows.append((m["id"], m.get("needs_to_manifest", "")[:170], ", ".join(hits) or "-", ", ".join(f"{k} ({det[k]['verdict']})" for k in miss) or "-"))
healed = {}
if os.path.exists("/verif/seeded/healed.json"):
    healed = json.load(open("/verif/seeded/healed.json"))
t = ["| change | needs, to manifest | detected by | not detected by |", "|---|---|---|---|"]
for r in rows:
    if r[0] in healed:
        continue
    t.append("| %s | %s | %s | %s |" % r)
for k, v in sorted(healed.items()):
    t.append(f"| {k} | {v} | healed (demonstration passes on the repaired tree) | - |")
s = open("/verif/DESIGN.md").read()
s = re.sub(r"<!-- SEEDED-TABLE-BEGIN -->.*?<!-- SEEDED-TABLE-END -->", "<!-- SEEDED-TABLE-BEGIN -->\n" + "\n".join(t) + "\n<!-- SEEDED-TABLE-END -->", s, flags=re.S)
mt = ["| mutant | owning check (quick) | first message |", "|---|---|---|"]
if os.path.exists("/verif/mutants/results.txt"):
    for l in open("/verif/mutants/results.txt"):
        m = re.match(r"(\S+): (\S+)\s*(.*)", l.strip())
        if m:
            msg = re.sub(r"^.*?(C\d\d: )", r"\1", m.group(3))[:150].replace("|", "/")
            mt.append(f"| {m.group(1)} | {m.group(2)} | {msg} |")
s = re.sub(r"<!-- MUTANT-TABLE-BEGIN -->.*?<!-- MUTANT-TABLE-END -->", "<!-- MUTANT-TABLE-BEGIN -->\n" + "\n".join(mt) + "\n<!-- MUTANT-TABLE-END -->", s, flags=re.S)
open("/verif/DESIGN.md", "w").write(s)
print(len(rows), "seeded rows,", len(mt) - 2, "mutant rows")
