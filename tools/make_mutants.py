#!/usr/bin/env python3
"""Regenerates /verif/mutants/*.diff from the current /repo HEAD (scratch copy under /tmp; /repo is not touched)."""
import os, shutil, subprocess, tempfile
D = tempfile.mkdtemp(prefix="mk.")
subprocess.run(f"git -C /repo archive HEAD | tar -x -C {D}", shell=True, check=True)
os.chdir(D)
subprocess.run("git init -q && git add -A && git -c user.email=a@b -c user.name=x commit -q -m base", shell=True, check=True)
os.makedirs("/verif/mutants", exist_ok=True)
bad = []
def mk(name, path, old, new):
    s = open(path).read()
    if s.count(old) != 1:
        bad.append((name, s.count(old))); return
    open(path, "w").write(s.replace(old, new))
    if subprocess.run("GOFLAGS=-mod=mod GOPROXY=off GOSUMDB=off GOTOOLCHAIN=local go1.26.8 build -tags verif ./... 2>&1", shell=True, stdout=subprocess.PIPE).returncode != 0:
        bad.append((name, "does not compile"))
    d = subprocess.run(["git", "diff"], stdout=-1, text=True).stdout
    open(f"/verif/mutants/{name}.diff", "w").write(d)
    subprocess.run(["git", "checkout", "-q", "."])

mk('C05-ordered-iter-early-exit-keeps-lock', 'cache_impl.go',
'''		c.evictionMutex.Lock()
		defer func() {
			c.evictionMutex.Unlock()
			c.rescheduleCleanUpIfIncomplete()
		}()
		c.maintenance(nil)

		for n := range seq {
			nowNano := c.clock.NowNano()
			if !n.IsAlive() || n.HasExpired(nowNano) {
				continue
			}
			if !yield(c.nodeToEntry(n, nowNano)) {
				return
			}
		}
''',
'''		c.evictionMutex.Lock()
		c.maintenance(nil)

		for n := range seq {
			nowNano := c.clock.NowNano()
			if !n.IsAlive() || n.HasExpired(nowNano) {
				continue
			}
			if !yield(c.nodeToEntry(n, nowNano)) {
				return
			}
		}
		c.evictionMutex.Unlock()
		c.rescheduleCleanUpIfIncomplete()
''')
mk('C16-jump-before-link', 'internal/deque/queue/mpsc.go',
'''	//nolint:gosec // it's ok
	atomic.StorePointer(&oldBuffer.data[nextArrayOffset(oldMask)], unsafe.Pointer(newBuffer)) // buffer linked

	verifhook.Point("mpsc.resize.linked")''',
'''	atomic.StorePointer(&oldBuffer.data[offsetInOld], m.jump)

	verifhook.Point("mpsc.resize.linked")
	//nolint:gosec // it's ok
	atomic.StorePointer(&oldBuffer.data[nextArrayOffset(oldMask)], unsafe.Pointer(newBuffer)) // buffer linked''')
mk('C17-drain-keeps-slot', 'internal/lossy/ring.go',
'''		atomic.StorePointer(&r.buffer[index], nil)
		verifhook.Point("ring.drain.afterClear")''',
'''		verifhook.Point("ring.drain.afterClear")''')
mk('C14-skip-processingToRequired', 'cache_impl.go',
'''		case processingToIdle:
			if c.drainStatus.CompareAndSwap(processingToIdle, processingToRequired) {
				return
			}''',
'''		case processingToIdle:
			return''')
mk('C14-unconditional-idle', 'cache_impl.go',
'''	if c.drainStatus.Load() != processingToIdle || !c.drainStatus.CompareAndSwap(processingToIdle, idle) {
		c.drainStatus.Store(required)
	}''',
'''	c.drainStatus.Store(idle)''')
mk('C14-no-reschedule-in-drain', 'cache_impl.go',
'''	if c.evictionMutex.TryLock() {
		c.maintenance(nil)
		c.evictionMutex.Unlock()
		c.rescheduleCleanUpIfIncomplete()
	} else {''',
'''	if c.evictionMutex.TryLock() {
		c.maintenance(nil)
		c.evictionMutex.Unlock()
	} else {''')
mk('C02-evict-by-key-compare', 'cache_impl.go',
'''		if n.AsPointer() == current.AsPointer() {
			deleted = current''',
'''		if n.Key() == current.Key() {
			deleted = current''')
mk('C15-drop-newer-table-check', 'internal/hashmap/map.go',
'''		if m.newerTableExists(table) {
			// Someone resized the table. Go for another attempt.
			rootb.mu.Unlock()
			goto compute_attempt
		}
''',
'''''')
mk('C03-getnode-ignores-expiry', 'cache_impl.go',
'''	if n.HasExpired(nowNano) {
		c.stats.RecordMisses(1)
		c.scheduleDrainBuffers()
		return nil
	}
''',
'''''')
mk('C01-setifabsent-swapped-tuple', 'cache_impl.go',
'''		c.afterRead(old, nowNano, false, false)
		return old.Value(), false''',
'''		c.afterRead(old, nowNano, false, false)
		return value, false''')
mk('C06-notify-even-if-not-removed', 'cache_impl.go',
'''	if deleted {
		c.notifyDeletion(n.Key(), n.Value(), cause)
		c.stats.RecordEviction(n.Weight())
	}''',
'''	c.notifyDeletion(n.Key(), n.Value(), cause)
	if deleted {
		c.stats.RecordEviction(n.Weight())
	}''')
mk('C07-evict-at-maximum', 'policy.go',
'''	for p.weightedSize > p.maximum {
		// Search the admission window for additional candidates''',
'''	for p.weightedSize >= p.maximum {
		// Search the admission window for additional candidates''')
mk('C08-startcall-no-doublecheck', 'singleflight.go',
'''		// double check
		if prevCall != nil {
			return prevCall
		}
		shouldLoad = true''',
'''		shouldLoad = true''')
mk('C09-atomicset-keeps-call', 'cache_impl.go',
'''func (c *cache[K, V]) atomicSet(key K, value V, old node.Node[K, V], cl *call[K, V], nowNano int64) node.Node[K, V] {
	if cl == nil {
		c.singleflight.delete(key)
	}''',
'''func (c *cache[K, V]) atomicSet(key K, value V, old node.Node[K, V], cl *call[K, V], nowNano int64) node.Node[K, V] {''')
mk('C11-isfresh-inclusive', 'internal/generated/node/ber.go',
'''	return n.IsAlive() && n.RefreshableAt() > now''',
'''	return n.IsAlive() && n.RefreshableAt() >= now''')
mk('C12-plain-add', 'cache_impl.go',
'''	if s := nowNano + int64(d); s >= nowNano {
		return s
	}
	return math.MaxInt64''',
'''	return nowNano + int64(d)''')
mk('C13-steps-delta', 'internal/expiration/variable.go',
'''	steps := min(delta+1, buckets[index])''',
'''	steps := min(delta, buckets[index])''')
mk('C18-admit-ge', 'policy.go',
'''	if candidateFreq > victimFreq {
		return true
	}''',
'''	if candidateFreq >= victimFreq {
		return true
	}''')
mk('C19-load-keeps-expired', 'persistence.go',
'''		if c.cache.withExpiration && entry.ExpiresAtNano <= nowNano {
			continue
		}
''',
'''''')
mk('C20-bulkget-counts-duplicates', 'cache_impl.go',
'''		if _, found := result[key]; found {
			continue
		}
		if _, found := misses[key]; found {
			continue
		}
''',
'''''')
mk('C10-return-volunteered', 'cache_impl.go',
'''	//nolint:prealloc // it's ok
	var errsFromCalls []error''',
'''	for k, cl := range toLoadCalls {
		if cl.isFake && cl.err == nil {
			result[k] = cl.value
		}
	}
	//nolint:prealloc // it's ok
	var errsFromCalls []error''')
mk('C04-no-oversize-eviction-on-add', 'policy.go',
'''	switch {
	case nodeWeight > p.maximum:
		evictNode(n, 0)
	case nodeWeight > p.windowMaximum:
		p.window.PushFront(n)''',
'''	switch {
	case nodeWeight > p.windowMaximum:
		p.window.PushFront(n)''')
mk('C05-update-forgets-protected-weight', 'policy.go',
'''	case n.InMainProtected():
		p.mainProtectedWeightedSize += nodeWeight
		if nodeWeight <= p.maximum {''',
'''	case n.InMainProtected():
		if nodeWeight <= p.maximum {''')
mk('C15-range-skips-overflow-buckets', 'internal/hashmap/map.go',
'''			if next := b.next.Load(); next == nil {
				rootb.mu.Unlock()
				break
			} else {
				b = next
			}
		}
		// Call the function for all copied nodes.''',
'''			rootb.mu.Unlock()
			break
		}
		// Call the function for all copied nodes.''')
mk('C15-size-counts-updates', 'internal/hashmap/map.go',
'''						if oldNode.AsPointer() != newNode.AsPointer() {
							atomic.StorePointer(&b.nodes[idx], newNode.AsPointer())
						}
						rootb.mu.Unlock()
						return newNode''',
'''						if oldNode.AsPointer() != newNode.AsPointer() {
							atomic.StorePointer(&b.nodes[idx], newNode.AsPointer())
							table.addSize(bidx, 1)
						}
						rootb.mu.Unlock()
						return newNode''')
mk('C03-iterators-ignore-expiry', 'cache_impl.go',
'''			if !n.IsAlive() || n.HasExpired(nowNano) {
				c.scheduleDrainBuffers()
				return true
			}''',
'''			if !n.IsAlive() || n.HasExpired(nowNano-1) {
				c.scheduleDrainBuffers()
				return true
			}''')
mk('C17-ring-off-by-one-full', 'internal/lossy/ring.go',
'''	if size >= bufferSize {
		return Full
	}''',
'''	if size > bufferSize {
		return Full
	}''')
mk('C16-refuse-one-early', 'internal/deque/queue/mpsc.go',
'''	case m.availableInQueue(pIndex, cIndex) <= 0:''',
'''	case m.availableInQueue(pIndex, cIndex) <= 2:''')
mk('C12-update-keeps-old-deadline', 'cache_impl.go',
'''		expiresAfter = c.expiryCalculator.ExpireAfterUpdate(entry, old.Value())
	}''',
'''		expiresAfter = c.expiryCalculator.ExpireAfterUpdate(entry, old.Value())
		if expiresAfter > currentDuration {
			expiresAfter = currentDuration
		}
	}''')
mk('C19-save-skips-refresh-time', 'persistence.go',
'''		if c.cache.withRefresh && entry.RefreshableAtNano != unreachableRefreshableAt {''',
'''		if c.cache.withRefresh && entry.RefreshableAtNano != unreachableRefreshableAt && entry.RefreshableAtNano > nowNano {''')
mk('C20-miss-not-counted-for-expired', 'cache_impl.go',
'''	if n.HasExpired(nowNano) {
		c.stats.RecordMisses(1)
		c.scheduleDrainBuffers()
		return nil
	}''',
'''	if n.HasExpired(nowNano) {
		c.scheduleDrainBuffers()
		return nil
	}''')
mk('C11-failed-reload-replaces', 'cache_impl.go',
'''		if cl.err != nil {
			if cl.isRefresh && oldNode != nil {
				c.calcRefreshableAt(oldNode, oldNode, cl, nowNano)
			}
			return oldNode
		}''',
'''		if cl.err != nil && !(cl.isRefresh && isCorrectCall) {
			return oldNode
		}''')
mk('C13-wrong-level', 'internal/expiration/variable.go',
'''		if duration < spans[i+1] {
			ticks := expiration >> shift[i]''',
'''		if duration < spans[i+1] {
			ticks := expiration >> shift[0]''')
mk('C05-wheel-keeps-old-on-update', 'cache_impl.go',
'''		if c.withExpiration {
			c.expirationPolicy.Delete(old)
			if n.IsAlive() {
				c.expirationPolicy.Add(n)
			}
		}''',
'''		if c.withExpiration {
			if n.IsAlive() {
				c.expirationPolicy.Add(n)
			}
		}''')

# --- mid-scale mutants: only reachable with maxima >= 16 (hill climber moves entries between the queues) ---
mk('C05-climber-forgets-protected-weight', 'policy.go',
'''		} else {
			p.mainProtectedWeightedSize -= weight
			p.protected.Delete(candidate)
		}
		p.windowWeightedSize += weight''',
'''		} else {
			p.protected.Delete(candidate)
		}
		p.windowWeightedSize += weight''')
mk('C05-climber-shrink-keeps-window-weight', 'policy.go',
'''		quota -= weight
		p.windowWeightedSize -= uint64(weight)
		p.window.Delete(candidate)
		p.probation.PushBack(candidate)
		candidate.MakeMainProbation()''',
'''		quota -= weight
		p.window.Delete(candidate)
		p.probation.PushBack(candidate)
		candidate.MakeMainProbation()
		p.windowWeightedSize -= uint64(quota)''')
mk('C05-climber-shrink-forgets-queue-type', 'policy.go',
'''		p.window.Delete(candidate)
		p.probation.PushBack(candidate)
		candidate.MakeMainProbation()
	}

	p.mainProtectedMaximum -= uint64(quota)''',
'''		p.window.Delete(candidate)
		p.probation.PushBack(candidate)
	}

	p.mainProtectedMaximum -= uint64(quota)''')
mk('C13-periodic-cleanup-does-nothing', 'cache_impl.go',
'''		case <-tick:
			c.CleanUp()
			c.clock.ProcessTick()''',
'''		case <-tick:
			c.clock.ProcessTick()''')

def mkm(name, path, pairs):
    """several replacements in one file (each old text must occur exactly once)"""
    s = open(path).read()
    for old, new in pairs:
        if s.count(old) != 1:
            bad.append((name, old[:40], s.count(old))); return
        s = s.replace(old, new)
    open(path, "w").write(s)
    if subprocess.run("GOFLAGS=-mod=mod GOPROXY=off GOSUMDB=off GOTOOLCHAIN=local go1.26.8 build -tags verif ./... 2>&1", shell=True, stdout=subprocess.PIPE).returncode != 0:
        bad.append((name, "does not compile"))
    d = subprocess.run(["git", "diff"], stdout=-1, text=True).stdout
    open(f"/verif/mutants/{name}.diff", "w").write(d)
    subprocess.run(["git", "checkout", "-q", "."])

# chain-depth mutants: only visible in bucket chains far longer than uniformly hashed keys ever produce
mkm('C15-chain-get-bounded-probe', 'internal/hashmap/map.go', [
('''	bidx := uint64(len(table.buckets)-1) & h1
	b := &table.buckets[bidx]
	for {
		metaw := b.meta.Load()''', '''	bidx := uint64(len(table.buckets)-1) & h1
	b := &table.buckets[bidx]
	for depth := 0; ; depth++ {
		metaw := b.meta.Load()'''),
('''		b = b.next.Load()
		if b == nil {
			return zeroValue[N]()''', '''		b = b.next.Load()
		if b == nil || depth >= 8 {
			return zeroValue[N]()'''),
])
mkm('C15-chain-copy-stops-deep', 'internal/hashmap/map.go', [
('''	//nolint:gocritic // nesting is normal here
	for {
		for i := 0; i < nodesPerMapBucket; i++ {
			if b.nodes[i] != nil {
				n := m.nodeManager.FromPointer(b.nodes[i])''', '''	//nolint:gocritic // nesting is normal here
	for depth := 0; ; depth++ {
		for i := 0; i < nodesPerMapBucket; i++ {
			if b.nodes[i] != nil {
				n := m.nodeManager.FromPointer(b.nodes[i])'''),
('''				copied++
			}
		}
		if next := b.next.Load(); next == nil {''', '''				copied++
			}
		}
		if next := b.next.Load(); next == nil || depth >= 12 {'''),
])
mk('C15-chain-range-fixed-scratch', 'internal/hashmap/map.go',
'''				if b.nodes[i] != nil {
					bnodes = append(bnodes, b.nodes[i])''',
'''				if b.nodes[i] != nil && len(bnodes) < cap(bnodes) {
					bnodes = append(bnodes, b.nodes[i])''')
os.chdir("/")
shutil.rmtree(D)
print("not generated:", bad)
