#!/bin/bash
# Round 8: confirm a sub-agent's two changes (A,B under /tmp/seeded_in8/<ID>/) as <ID>-P / <ID>-Q and run checks against them.
# usage: round8.sh <ID> [extra property ids to try as well]
cd /verif
ID=$1; shift
for pair in A:P B:Q; do
  src=${pair%:*}; dst=${pair#*:}
  [ -f /tmp/seeded_in8/$ID/$src/patch.diff ] || { echo "$ID-$dst: no patch"; continue; }
  [ -e seeded/$ID-$dst ] && { echo "$ID-$dst exists already: not overwritten"; continue; }
  python3 tools/seed_verify.py $ID $src --in /tmp/seeded_in8 --as $dst
  if [ -f seeded/$ID-$dst/meta.json ]; then
    python3 - <<PY
import json
p='/verif/seeded/$ID-$dst/meta.json'; m=json.load(open(p)); m["round"]=8; json.dump(m,open(p,'w'),indent=1)
PY
    python3 tools/seed_check.py $ID-$dst $ID "$@"
  fi
done
