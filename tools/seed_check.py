#!/usr/bin/env python3
"""Runs checks against a confirmed seeded change (on a scratch copy; /repo is never touched) and records the
result in /verif/seeded/<id>/meta.json.   usage: seed_check.py <seeded-id> <PROP> [<PROP>...] [--tier quick|thorough]"""
import json, os, subprocess, sys, time
args = [a for a in sys.argv[1:] if not a.startswith("--")]
tier = "quick"
if "--tier" in sys.argv:
    tier = sys.argv[sys.argv.index("--tier") + 1]
    args = [a for a in args if a != tier]
sid, props = args[0], args[1:]
d = f"/verif/seeded/{sid}"
meta = json.load(open(f"{d}/meta.json"))
for p in props:
    t0 = time.time()
    r = subprocess.run(["/verif/tools/mutant.sh", f"{d}/patch.diff", p, tier], stdout=subprocess.PIPE, stderr=subprocess.STDOUT, text=True)
    msg = [l.strip() for l in r.stdout.splitlines() if p + ":" in l]
    verdict = {0: "missed", 1: "DETECTED", 2: "inconclusive", 3: "patch-does-not-apply"}.get(r.returncode, f"rc={r.returncode}")
    meta.setdefault("detected_by", {})[f"{p}/{tier}"] = {"verdict": verdict, "wall_s": round(time.time() - t0, 1), "message": (msg[0][:300] if msg else "")}
    print(sid, p, tier, verdict, (msg[0][:160] if msg else ""))
json.dump(meta, open(f"{d}/meta.json", "w"), indent=1)
