#!/usr/bin/env python3
"""Automatic mutation sweep: syntactic one-token mutants of otter's core files, filtered by "still compiles and the
existing suite still passes", then run against the quick checks of the properties that own the mutated code.
Nothing here touches /repo: everything happens in a scratch copy under /tmp that is removed at the end.

usage: mutsweep.py --n 200 --seed 1 --out /tmp/mutsweep.jsonl [--files policy.go,...] [--repo /repo]

Each output line: {"file","line","rule","old","new","func","status": build-fails | killed-by-suite | DETECTED by <ID> | SURVIVED,
                   "checks_tried": [...], "message": "..."}
A SURVIVED mutant is either behaviour-preserving, outside every listed property, or a gap in the checks: triage by hand.
"""
import argparse, json, os, random, re, shutil, subprocess, sys, tempfile, time

FILES = {
    "cache_impl.go": ["C01", "C06", "C05", "C10", "C11", "C09", "C13", "C14", "C12", "C20", "C04", "C03", "C19"],
    "policy.go": ["C05", "C04", "C07", "C18", "C06", "C01"],
    "sketch.go": ["C18"],
    "singleflight.go": ["C08", "C10", "C09", "C11", "C02"],
    "persistence.go": ["C19"],
    "internal/expiration/variable.go": ["C13", "C05", "C03", "C07"],
    "internal/hashmap/map.go": ["C15", "C02", "C01"],
    "internal/deque/queue/mpsc.go": ["C16", "C05"],
    "internal/lossy/ring.go": ["C17"],
    "internal/lossy/striped.go": ["C17"],
    "internal/deque/linked.go": ["C05", "C04", "C18"],
    "stats/counter.go": ["C20"],
    "internal/xsync/adder.go": ["C20"],
    "internal/xmath/xmath.go": ["C12", "C16", "C15", "C18"],
    "entry.go": ["C01", "C12", "C19"],
    "expiry_calculator.go": ["C12", "C01"],
    "refresh_calculator.go": ["C11", "C12"],
}
# narrower owner lists for cache_impl.go by enclosing function (first match wins)
FUNC_OWNERS = [
    (r"Stats|stats|record", ["C20"]),
    (r"[Rr]efresh|reload", ["C11", "C10", "C09", "C08", "C01"]),
    (r"[Bb]ulk|[Ll]oad|Get$|^Get|wrapLoad|afterDeleteCall|doCall", ["C10", "C08", "C09", "C11", "C01", "C20"]),
    (r"calc|addDuration|[Ee]xpiresAfter|[Rr]efreshableAfter", ["C12", "C01", "C03", "C11", "C19"]),
    (r"schedule|drain|[Mm]aintenance|performCleanUp|CleanUp|afterWrite|shouldDrain|resched", ["C14", "C05", "C06", "C04", "C16", "C13", "C17"]),
    (r"runTask|evictNode|expireNodes|makeDead|makeRetired|onAccess", ["C05", "C06", "C04", "C13", "C07", "C20", "C01"]),
    (r"Hottest|Coldest|evictionOrder|nodes|All|Keys|Values|entries", ["C03", "C05", "C01", "C15", "C19", "C14"]),
    (r"SetMaximum|GetMaximum|WeightedSize|EstimatedSize", ["C04", "C05", "C07", "C01", "C14"]),
    (r"InvalidateAll", ["C01", "C06", "C05", "C14", "C16"]),
    (r"[Ss]et|[Cc]ompute|[Ii]nvalidate|atomic|getNode|GetIfPresent|GetEntry|nodeToEntry|newNode|deleteNode|notify", ["C01", "C06", "C03", "C05", "C09", "C12", "C02", "C20"]),
    (r"newCache|init", ["C01", "C05", "C04", "C14", "C13"]),
]

RULES = [
    ("<=to<", re.compile(r"(?<![<>=!])<=(?!=)"), "<"),
    ("<to<=", re.compile(r"(?<![<>=!-])<(?![<=-])"), "<="),
    (">=to>", re.compile(r"(?<![<>=!])>=(?!=)"), ">"),
    (">to>=", re.compile(r"(?<![<>=!-])>(?![>=])"), ">="),
    ("==to!=", re.compile(r"(?<![<>=!:])==(?!=)"), "!="),
    ("!=to==", re.compile(r"!=(?!=)"), "=="),
    ("&&to||", re.compile(r"&&"), "||"),
    ("||to&&", re.compile(r"\|\|"), "&&"),
    ("+to-", re.compile(r"(?<![+\w\)\]] )(?<=[\w\)\]]) \+ (?=[\w\(])"), " - "),
    ("-to+", re.compile(r"(?<=[\w\)\]]) - (?=[\w\(])"), " + "),
    ("+=to-=", re.compile(r"\+="), "-="),
    ("-=to+=", re.compile(r"-="), "+="),
    ("truetofalse", re.compile(r"\btrue\b"), "false"),
    ("falsetotrue", re.compile(r"\bfalse\b"), "true"),
    ("plus1", re.compile(r"(?<=[\w\)\]])\+1\b"), ""),
    ("minus1", re.compile(r"(?<=[\w\)\]])-1\b"), ""),
    ("not", re.compile(r"if !(?=[\w\(])"), "if "),
    ("addnot", re.compile(r"if (?=[a-z]\w*\.\w+\(\) \{)"), "if !"),
    ("break->continue", re.compile(r"^\s*break$"), None),
    ("continue->break", re.compile(r"^\s*continue$"), None),
    ("delete-stmt", re.compile(r"^\t+[a-zA-Z_][\w\.]*(\[[^\]]*\])?\.[A-Za-z]\w*\([^{}]*\)$"), None),
    ("delete-assign", re.compile(r"^\t+[a-zA-Z_][\w\.]* (=|\+=|-=) [^{}]*$"), None),
    ("return-early", re.compile(r"^\t+return$"), None),
    ("shift", re.compile(r">> (?=\w)"), "<< "),
    ("and-or", re.compile(r"(?<=\w) & (?=\w)"), " | "),
]

ROOT = os.path.dirname(os.path.dirname(os.path.abspath(__file__)))
SKIP = re.compile(r"verifhook|^\s*//|panic\(|fmt\.|errors\.New|//nolint|^\s*(import|package)\b|^\s*\"")


def enclosing_funcs(lines):
    cur, out = "", []
    for l in lines:
        m = re.match(r"func (?:\([^)]*\) )?(\w+)", l)
        if m:
            cur = m.group(1)
        out.append(cur)
    return out


def candidates(repo, files):
    cands = []
    for f in files:
        src = open(os.path.join(repo, f)).read().split("\n")
        funcs = enclosing_funcs(src)
        in_verif = 0
        for i, l in enumerate(src):
            if "if verifhook.Enabled" in l:
                in_verif = len(l) - len(l.lstrip("\t")) + 1
                continue
            if in_verif:
                if l.startswith("\t" * (in_verif - 1) + "}"):
                    in_verif = 0
                continue
            if SKIP.search(l) or not funcs[i] or funcs[i].startswith("Verif"):
                continue
            code = l.split("//")[0] if '"' not in l else l
            for name, rx, rep in RULES:
                for m in rx.finditer(code):
                    if name == "break->continue":
                        new = l.replace("break", "continue")
                    elif name == "continue->break":
                        new = l.replace("continue", "break")
                    elif name in ("delete-stmt", "delete-assign"):
                        if ":=" in l or "defer" in l or "go " in l.strip()[:3] or l.strip().startswith("return"):
                            continue
                        new = l[: len(l) - len(l.lstrip("\t"))] + "_ = 0 // mutant: statement removed"
                    elif name == "return-early":
                        continue
                    else:
                        new = code[: m.start()] + rep + code[m.end():]
                    if new != l:
                        cands.append({"file": f, "line": i + 1, "rule": name, "old": l.strip(), "new": new.strip(), "func": funcs[i], "_new": new})
                    if name in ("break->continue", "continue->break", "delete-stmt", "delete-assign"):
                        break
    return cands


def sh(cmd, cwd, env, timeout):
    try:
        p = subprocess.run(cmd, cwd=cwd, env=env, stdout=subprocess.PIPE, stderr=subprocess.STDOUT, text=True, timeout=timeout)
        return p.returncode, p.stdout
    except subprocess.TimeoutExpired as e:
        out = e.stdout or ""
        if isinstance(out, bytes):
            out = out.decode(errors="replace")
        return 124, out + "\nTIMEOUT"


def owners(c):
    if c["file"] == "cache_impl.go":
        for rx, own in FUNC_OWNERS:
            if re.search(rx, c["func"]):
                return own
    return FILES[c["file"]]


def main():
    ap = argparse.ArgumentParser()
    ap.add_argument("--n", type=int, default=100)
    ap.add_argument("--seed", type=int, default=1)
    ap.add_argument("--out", default="/tmp/mutsweep.jsonl")
    ap.add_argument("--files", default="")
    ap.add_argument("--repo", default="/repo")
    ap.add_argument("--maxchecks", type=int, default=6)
    a = ap.parse_args()
    files = [f for f in (a.files.split(",") if a.files else FILES)]
    base = tempfile.mkdtemp(prefix="msw.")
    subprocess.run(f"git -C {a.repo} archive HEAD | tar -x -C {base}", shell=True, check=True)
    cands = candidates(base, files)
    rnd = random.Random(a.seed)
    rnd.shuffle(cands)
    done = set()
    if os.path.exists(a.out):
        for l in open(a.out):
            try:
                d = json.loads(l)
                done.add((d["file"], d["line"], d["rule"], d["new"]))
            except Exception:
                pass
    suite_env = dict(os.environ)
    for k in ("GOSUMDB", "GOTOOLCHAIN"):
        suite_env.pop(k, None)
    suite_env.update({"GOFLAGS": "-mod=mod", "GOPROXY": "off"})
    print(f"{len(cands)} candidate mutants in {len(files)} files; sampling {a.n}", flush=True)
    n = 0
    outf = open(a.out, "a")
    try:
        for c in cands:
            if n >= a.n:
                break
            key = (c["file"], c["line"], c["rule"], c["new"])
            if key in done:
                continue
            n += 1
            path = os.path.join(base, c["file"])
            orig = open(path).read()
            lines = orig.split("\n")
            lines[c["line"] - 1] = c["_new"]
            open(path, "w").write("\n".join(lines))
            rec = {k: v for k, v in c.items() if not k.startswith("_")}
            t0 = time.time()
            try:
                rc, out = sh(["go", "build", "./..."], base, suite_env, 300)
                if rc != 0:
                    rec["status"] = "build-fails"
                    continue
                rc, out = sh(["go", "vet", "./" + os.path.dirname(c["file"])], base, suite_env, 300)
                if rc != 0 and "declared and not used" in out:
                    rec["status"] = "build-fails"
                    continue
                killed = False
                for attempt in range(3):
                    rc, out = sh(["go", "test", "-vet=off", "-count=1", "-timeout", "90s", "./..."], base, suite_env, 400)
                    for junk in ("ololo",):
                        shutil.rmtree(os.path.join(base, junk), ignore_errors=True)
                        if os.path.exists(os.path.join(base, junk)):
                            os.remove(os.path.join(base, junk))
                    if rc == 0:
                        break
                    fails = [l for l in out.splitlines() if l.startswith("--- FAIL") or l.startswith("FAIL") or "panic:" in l]
                    flaky = ("TestSaveLoadCache" in out and ("timed out" in out or "TIMEOUT" in out)) or all(
                        any(f in l for f in ("GetWithSuppressedLoad", "rescheduleDrainBuffers", "evict_wtinylfu", "TestCache_Scheduler", "FAIL\t", "FAIL ", "TestCache_Eviction ")) for l in fails if l.startswith("--- FAIL"))
                    rec["suite_failures"] = fails[:4]
                    if not flaky:
                        killed = True
                        break
                else:
                    killed = True
                if killed:
                    rec["status"] = "killed-by-suite"
                    continue
                rec.pop("suite_failures", None)
                tried = []
                rec["status"] = "SURVIVED"
                for pid in owners(c)[: a.maxchecks]:
                    env = dict(os.environ)
                    env.update({"VERIF_REPO": base, "VERIF_NO_EVIDENCE": "1"})
                    rc, out = sh([os.path.join(ROOT, "check"), pid, "quick"], ROOT, env, 1500)
                    tried.append(f"{pid}:{rc}")
                    if rc == 1:
                        msg = [l.strip() for l in out.splitlines() if pid + ":" in l]
                        rec["status"] = f"DETECTED by {pid}"
                        rec["message"] = msg[0][:240] if msg else ""
                        break
                rec["checks_tried"] = tried
            finally:
                open(path, "w").write(orig)
                rec["wall_s"] = round(time.time() - t0, 1)
                outf.write(json.dumps(rec) + "\n")
                outf.flush()
                print(json.dumps(rec)[:300], flush=True)
    finally:
        shutil.rmtree(base, ignore_errors=True)
        tag = __import__("hashlib").sha256(base.encode()).hexdigest()[:10]
        shutil.rmtree(os.path.join(ROOT, ".build", f"alt-{tag}"), ignore_errors=True)


if __name__ == "__main__":
    main()
