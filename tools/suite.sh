#!/bin/bash
# Runs /repo's own test suite (guard off) N times; prints a one-line verdict per run.
# usage: suite.sh [N] [dir]
N=${1:-1}; DIR=${2:-/repo}
cd "$DIR" || exit 2
fail=0
for i in $(seq 1 $N); do
  out=$(env -u GOSUMDB -u GOTOOLCHAIN GOFLAGS=-mod=mod GOPROXY=off go test -vet=off -count=1 -timeout 90s ./... 2>&1)
  hung=$(echo "$out" | grep -A3 "running tests:" | head -4 | tr "\n" " "); [ -n "$hung" ] && echo "   hung: $hung"; if echo "$out" | grep -q '^FAIL\|^panic\|^--- FAIL'; then
    fail=$((fail+1)); echo "run $i: FAIL"; echo "$out" | grep -E '^(--- FAIL|FAIL|panic|\s+.*_test.go:[0-9]+:)' | head -20
  else
    echo "run $i: ok"
  fi
done
rm -rf "$DIR/ololo"
exit $fail
