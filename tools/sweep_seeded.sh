#!/bin/bash
# Owner's quick check against every kept sub-agent change, three at a time, from the checkout this script lives in
# (so it can run from a `vp run` snapshot while /verif is being edited). Scratch copies of /repo only; nothing is
# written to seeded/. usage: tools/sweep_seeded.sh [out.log]
ROOT=$(cd "$(dirname "$0")/.." && pwd)
OUT=${1:-$ROOT/sweep_seeded.log}
: > "$OUT"
export ROOT OUT
ls "$ROOT/seeded" | grep -E '^C[0-9]+-[A-Z]$' | xargs -P 3 -I{} bash -c '
id={}; p=${id%-*}
D=$(mktemp -d /tmp/swp.XXXXXX)
git -C /repo archive HEAD | tar -x -C "$D"
if (cd "$D" && patch -p1 --fuzz=3 -s < "$ROOT/seeded/$id/patch.diff") >/dev/null 2>&1; then
  out=$(cd "$ROOT" && VERIF_REPO="$D" VERIF_NO_EVIDENCE=1 ./check "$p" quick 2>&1); rc=$?
else
  out=""; rc=3
fi
rm -rf "$D" "$ROOT/.build/alt-$(printf %s "$D" | sha256sum | cut -c1-10)"
case $rc in 0) v=missed;; 1) v=DETECTED;; 2) v=inconclusive;; 3) v=patch-does-not-apply;; *) v="rc=$rc";; esac
echo "$id $v $(echo "$out" | grep "$p:" | head -1 | cut -c1-120)" >> "$OUT"'
echo finished >> "$OUT"
