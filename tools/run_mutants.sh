#!/bin/bash
# usage: run_mutants.sh [pattern]   - runs the owning property's quick check against each mutants/<ID>-*.diff
cd /verif
for f in mutants/${1:-}*.diff; do
  id=$(basename "$f" | cut -d- -f1)
  out=$(tools/mutant.sh "$PWD/$f" "$id" quick 2>&1); rc=$?
  case $rc in 0) v=missed;; 1) v=DETECTED;; 2) v=inconclusive;; *) v="rc=$rc";; esac
  msg=$(echo "$out" | grep "$id:" | head -1 | cut -c1-160)
  echo "$(basename $f .diff): $v  $msg"
done
