#!/bin/bash
# Re-confirms every sub-agent change against the current /repo HEAD and runs the mapped checks against it.
cd /verif
while read -r id props; do
  pid=${id%-*}; x=${id#*-}
  [ -d /tmp/seeded_in/$pid/$x ] && python3 tools/seed_verify.py $pid $x
  case $x in C) y=A;; D) y=B;; *) y=;; esac
  [ -n "$y" ] && [ -d /tmp/seeded_in2/$pid/$y ] && python3 tools/seed_verify.py $pid $y --in /tmp/seeded_in2 --as $x
  if [ -f seeded/$id/meta.json ] && python3 -c "import json,sys;sys.exit(0 if json.load(open('seeded/$id/meta.json'))['confirmed'].get('existing_suite_passes_with_change') is not False else 1)"; then
    python3 tools/seed_check.py $id $props
  fi
done <<'MAP'
C01-A C01 C03
C01-B C01 C03
C02-A C15 C02
C02-B C02
C03-A C03 C19
C03-B C03 C01
C04-A C04 C07
C04-B C04 C05 C06
C05-A C05
C06-A C06
C06-B C06
C07-A C07 C04
C07-B C07 C04
C08-A C08 C10
C08-B C08
C09-A C09 C02
C09-B C09 C10
C10-A C10 C11
C10-B C10 C08
C11-A C11 C10
C11-B C11
C12-A C12
C12-B C12 C19
C13-A C13 C06
C14-A C14
C14-B C14
C15-A C15
C15-B C15 C02
C16-B C16
C17-A C17
C17-B C17
C18-A C18
C18-B C18
C19-A C19
C19-B C19
C20-A C20
C20-B C20
C05-B C05
C13-B C13
C16-A C16 C05 C06
C01-C C01 C12 C03
C01-D C01 C10 C11
C02-C C02 C15
C02-D C02 C08
C03-C C03
C03-D C03 C12 C01
C04-C C04 C05
C04-D C04 C07
C05-C C05 C04
C05-D C05 C04
C06-C C06 C01
C06-D C06 C09
C07-C C07 C04
C07-D C07 C04
C08-C C08 C09 C11
C08-D C08 C10
C09-C C09 C02
C09-D C09
C10-C C10 C11
C10-D C10 C08
C11-C C11 C10
C11-D C11
C12-C C12 C01
C12-D C12 C01
C13-C C13 C05
C13-D C13 C07 C06
C14-C C14 C04
C14-D C14 C06
C15-C C15 C02
C15-D C15 C02
C16-C C16
C16-D C16
C17-C C17
C17-D C17
C18-C C18
C18-D C18 C04
C19-C C19
C19-D C19
C20-C C20 C06
C20-D C20 C10
MAP
