# Which test functions decide which property, with per-tier budgets.
# checks = rapid cases per shard; shards = parallel processes (distinct derived seeds).

def s1(test, qchecks, tchecks, qshards=4, tshards=16, timeout_q=240, timeout_t=1500, env=None):
    return {
        "test": test,
        "quick": {"checks": qchecks, "shards": qshards, "timeout": timeout_q, "env": env or {}},
        "thorough": {"checks": tchecks, "shards": tshards, "timeout": timeout_t, "shrink": 60, "env": env or {}},
    }


TESTS = {
    "C01": [s1("TestC01_S1Conformance", 40000, 250000, qshards=8), s1("TestC01_S1Mid", 3000, 40000, timeout_t=2400), s1("TestC01_KeyTypes", 4000, 60000, timeout_t=2400)],
    "C02": [s1("TestC02_Linearizable", 600, 10000, qshards=8, timeout_t=3000)],
    "C03": [s1("TestC03_S1Visibility", 40000, 250000, qshards=6), s1("TestC03_S4Phases", 300, 3000, timeout_t=2400)],
    "C04": [s1("TestC04_S1Bound", 30000, 200000), s1("TestC04_S1Burst", 1000, 10000), s1("TestC04_S3Bound", 5000, 60000, timeout_t=2400), s1("TestC04_S4Bound", 300, 3000, timeout_t=2400), s1("TestC04_S1Mid", 3000, 40000, timeout_t=2400)],
    "C05": [s1("TestC05_S1Bookkeeping", 30000, 200000), s1("TestC05_S1Burst", 1000, 10000), s1("TestC05_S3Bookkeeping", 5000, 60000, timeout_t=2400), s1("TestC05_S4Bookkeeping", 300, 3000, timeout_t=2400), s1("TestC05_S1Mid", 3000, 40000, timeout_t=2400)],
    "C06": [s1("TestC06_S1Events", 30000, 200000), s1("TestC06_S1Burst", 1000, 10000), s1("TestC06_S3Events", 5000, 60000, timeout_t=2400), s1("TestC06_S4Events", 300, 3000, timeout_t=2400), s1("TestC06_S1Mid", 3000, 40000, timeout_t=2400)],
    "C07": [s1("TestC07_S1Justified", 40000, 250000, qshards=8), s1("TestC07_S1Mid", 3000, 40000, timeout_t=2400)],
    "C08": [s1("TestC08_SingleFlight", 50000, 400000, qshards=6), s1("TestC08_S4Overlap", 600, 6000, timeout_t=2400), s1("TestC08_S4BulkCycles", 400, 5000, timeout_t=2400)],
    "C09": [s1("TestC09_WritePlacement", 50000, 400000, qshards=8), s1("TestC09_S1LateReloads", 30000, 250000, qshards=6), s1("TestC09_S4SlowWrites", 80, 1500, timeout_t=2400)],
    "C10": [s1("TestC10_S1Loads", 40000, 250000, qshards=8), s1("TestC10_S2Waiters", 40000, 300000)],
    "C11": [s1("TestC11_S1Refresh", 40000, 250000, qshards=6), s1("TestC11_S1NoRefresh", 3000, 30000, qshards=1, tshards=4), s1("TestC11_S2InFlight", 30000, 250000), s1("TestC11_S2RefreshResults", 30000, 250000)],
    "C12": [s1("TestC12_S1Deadlines", 40000, 250000, qshards=8), s1("TestC12_S3Published", 6000, 100000, timeout_t=2400)],
    "C13": [s1("TestC13_S1Sweep", 40000, 250000, qshards=6), s1("TestC13_ClockGate", 10000, 100000), s1("TestC13_S3Touches", 6000, 100000, timeout_t=2400), s1("TestC13_WheelModel", 30000, 500000), s1("TestC13_MassSweep", 1000, 15000, qshards=2, tshards=8)],
    "C14": [s1("TestC14_DrainProtocol", 8000, 150000, qshards=8, timeout_t=2400), s1("TestC14_S4Rounds", 150, 3000, timeout_t=2400)],
    "C15": [s1("TestC15_SeqModel", 6000, 60000), s1("TestC15_Concurrent", 400, 4000, timeout_t=2400), s1("TestC15_CacheIteration", 200, 3000, timeout_t=2400), s1("TestC15_ChainSeq", 4000, 60000), s1("TestC15_ChainConcurrent", 300, 4000, timeout_t=2400), s1("TestC15_FloatKeys", 5000, 80000, qshards=2, tshards=4)],
    "C16": [s1("TestC16_SeqModel", 15000, 150000), s1("TestC16_Concurrent", 250, 3000, timeout_t=2400), s1("TestC16_S3", 6000, 80000, timeout_t=2400), s1("TestC16_S1Burst", 800, 8000), s1("TestC16_S4Writes", 300, 3000, timeout_t=2400)],
    "C17": [s1("TestC17_SeqModel", 20000, 300000), s1("TestC17_Concurrent", 300, 6000, timeout_t=2400), s1("TestC17_S3", 6000, 120000, timeout_t=2400), s1("TestC17_S1ReadBursts", 8000, 120000), s1("TestC17_StripeChurn", 1500, 40000, timeout_t=2400), s1("TestC17_S4CacheReads", 300, 3000, timeout_t=2400), s1("TestC17_S4ReadExtends", 150, 2000, timeout_t=2400)],
    "C18": [s1("TestC18_Sketch", 150000, 1500000, qshards=8), s1("TestC18_Admission", 60000, 1000000), s1("TestC18_CacheEstimates", 20000, 300000)],
    "C19": [s1("TestC19_S1SaveLoad", 40000, 200000, qshards=8), s1("TestC19_S4Readers", 400, 5000, timeout_t=2400), s1("TestC19_KeyTypes", 4000, 60000, timeout_t=2400)],
    "C20": [s1("TestC20_S1Stats", 40000, 250000, qshards=6), s1("TestC20_S4Stats", 300, 3000, timeout_t=2400), s1("TestC20_S1Mid", 3000, 40000, timeout_t=2400), s1("TestC20_CounterModel", 2000, 30000, qshards=2, tshards=8), s1("TestC20_ComputeClock", 20000, 300000, qshards=2, tshards=8)],
}
