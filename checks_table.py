# Which test functions decide which property, with per-tier budgets.
# checks = rapid cases per shard; shards = parallel processes (distinct derived seeds).

def s1(test, qchecks, tchecks, qshards=4, tshards=16, timeout_q=240, timeout_t=1500, env=None):
    return {
        "test": test,
        "quick": {"checks": qchecks, "shards": qshards, "timeout": timeout_q, "env": env or {}},
        "thorough": {"checks": tchecks, "shards": tshards, "timeout": timeout_t, "shrink": 60, "env": env or {}},
    }


TESTS = {
    "C01": [s1("TestC01_S1Conformance", 20000, 250000)],
}
