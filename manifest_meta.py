def m(text, ref, note, tech):
    return {"text": text, "design_ref": ref, "note": note, "technique": tech}

S1NOTE = "Trusts the Go runtime and the reference model in harness/vh/s1.go; eviction victims depend on a random hash seed inside the cache, so the oracle reconciles reported removals instead of predicting them and a failing script may need several replays (the replay command retries)."
S4NOTE = "Schedules are sampled by the Go runtime on up to 16 cores (GOMAXPROCS varied, optional yields/sleeps at verif hook points); they are not enumerated. The oracle is an invariant that holds under every legal schedule, so a report is never schedule-dependent noise, but absence of a report proves nothing about unexplored interleavings."

META = {
    "C01": m("Model-based property testing: rapid-generated operation scripts over all 12 node layouts run on one goroutine (inline executor, manual clock); every return value and the full key space are compared with a map-with-deadlines reference model after every step; automatic removals are reconciled through the deletion events. Held on all generated cases; no absence claim.",
             "DESIGN.md §5, §6 C01", S1NOTE, "stateful model-based property testing (rapid) against a reference map-with-deadlines model"),
    "C02": m("Recorded concurrent histories of generated programs (2-8 goroutines, hot keys, evictions, table growth/shrink) are checked for per-key linearizability by porcupine against a register model with load tokens; compute callbacks are checked to run once.",
             "DESIGN.md §6 C02, §7", S4NOTE + " Waiters of another call's load are unconstrained; a porcupine time-out is inconclusive.", "generated concurrent programs + recorded history + linearizability oracle (porcupine)"),
    "C03": m("Model-based scripts restricted to expiring configurations with nanosecond TTLs (expired-but-unswept entries are the norm): every operation on an expired key must behave as on an absent key, iterators and save/load must skip it, and the key space is re-read after every step.",
             "DESIGN.md §6 C03", S1NOTE, "stateful model-based property testing (rapid), visibility facet of the reference model"),
    "C04": m("Scripts on bounded caches with inline and deferred executors (late maintenance is a script action); at every quiescence point the sum of weights present, Coldest() and WeightedSize() are compared with GetMaximum(); zero-weight entries must never be reported Overflow.",
             "DESIGN.md §6 C04", S1NOTE + " The free-running and schedule-owned variants of this check are described in DESIGN.md; the registered check is the scripted one.", "stateful property testing (rapid) with a deferred executor; invariant at quiescence"),
    "C05": m("Same scripts as C04 over all layouts; at quiescence the derived views are compared with each other and with the model, and a verif-tag audit walks the table, the three eviction deques and the timer wheel under the eviction lock.",
             "DESIGN.md §6 C05", S1NOTE + " The audit (verif_export.go) only reads internal state.", "stateful property testing (rapid) + structural audit invariant at quiescence"),
    "C06": m("Ledger oracle over scripts with inline and deferred executors on all 12 layouts: every value that stops being current must be delivered exactly once to OnAtomicDeletion (during the operation) and once to OnDeletion (by quiescence) with the model's cause; nothing else may be reported.",
             "DESIGN.md §6 C06", S1NOTE, "stateful property testing (rapid); conservation / exactly-once ledger"),
    "C07": m("Scripts with an inline executor; every reported Overflow/Expiration is judged at the moment of the event against the model's total weight, current maximum and deadlines (weights up to 2^32-1, maxima up to 2^40, SetMaximum changes).",
             "DESIGN.md §6 C07", S1NOTE, "stateful property testing (rapid); per-event justification predicate against the model"),
    "C10": m("Scripts dominated by Get/BulkGet with generated loader outcomes and result shapes; results, loader argument lists and contents afterwards are compared with the model.",
             "DESIGN.md §6 C10", S1NOTE, "stateful model-based property testing (rapid) with generated loader outcomes"),
    "C11": m("Refresh-enabled scripts with inline and deferred executors around the refresh deadline; loader invocation log, returned values, refresh times and RefreshResult channels are compared with the model; a second test checks the nil channel without a refresh policy.",
             "DESIGN.md §6 C11", S1NOTE, "stateful model-based property testing (rapid) with a deferred executor and generated reload outcomes"),
    "C12": m("Scripts over every calculator kind with durations up to MaxInt64 and clock origins up to 2^62; ExpiresAtNano/RefreshableAtNano of every live key are compared with op time + returned duration after every step, visibility must flip exactly at the deadline, overflowing sums must mean 'never'.",
             "DESIGN.md §6 C12", S1NOTE, "stateful model-based property testing (rapid); exact deadline arithmetic in the model"),
    "C13": m("Scripts with TTLs from nanoseconds to years and clock jumps up to 100 years; at every CleanUp each model entry that expired more than one tick ago (and was written more than one tick ago) must already have been reported and removed from EstimatedSize.",
             "DESIGN.md §6 C13", S1NOTE + " The write-versus-sweep race of the statement (clock gate) is not in the registered check yet.", "stateful property testing (rapid); sweep-deadline obligation checked at every CleanUp"),
    "C15": m("The key index is tested directly: a sequential model test against a Go map (growth, shrink, chains, early-stopped Range) and free-running single-writer-register programs with filler waves, varied GOMAXPROCS and delays at the resize hand-off; exact interval oracle for reads, exactly-once callbacks, counters, Range guarantees, Size at quiescence. Both are repeated over key sets that a read-only probe of the current table's hash steers into 1-3 bucket chains (chains of dozens of linked buckets, optionally equal meta hashes), with churn of further colliding keys while readers walk the chains.",
             "DESIGN.md §6 C15", S4NOTE, "model-based property testing + concurrent single-writer-register interval oracle"),
    "C16": m("queue.MPSC is tested directly: sequential bounded-FIFO model over all capacity pairs, and free-running producers/consumer programs with per-producer sequence numbers, exactly-once delivery and a refusal-justification bound.",
             "DESIGN.md §6 C16", S4NOTE, "model-based property testing + concurrent exactly-once/order oracle"),
    "C17": m("lossy.Striped is tested directly: sequential 16-slot model, and free-running recorders with a draining consumer; delivered entries must be a duplicate-free subset of successful adds and equal to them after a quiescent drain, Len bounded.",
             "DESIGN.md §6 C17", S4NOTE, "model-based property testing + concurrent multiset oracle"),
    "C18": m("The sketch and the admission function are called through verif exports on generated multisets, capacities and hash seeds; lower/upper bounds per sampling period, exact halving on aging, and the admission formula with an injected random word.",
             "DESIGN.md §6 C18", "The verif exports call the unexported functions unchanged; the sketch's own size counter is used to detect automatic aging steps.", "property-based testing of pure functions (rapid) against arithmetic oracles"),
    "C19": m("A source cache built by a generated script is saved, the clock is moved by a generated offset and the stream is loaded into a fresh cache (same / smaller / larger maximum); loaded keys, values and deadlines are compared with the source as reported by the cache itself.",
             "DESIGN.md §6 C19", S1NOTE, "round-trip property testing (rapid) with generated clock offsets"),
    "C20": m("Scripts with a stats.Counter attached; after every action the snapshot must equal the harness tally (hits, misses, loads) and stay within the event-derived bounds for evictions; counters must be monotone.",
             "DESIGN.md §6 C20", S1NOTE, "stateful property testing (rapid); exact tally comparison after every step"),
}
META["C08"] = m("Scripts run inside a testing/synctest bubble: calls start in their own goroutines, loader invocations block on script-owned gates and are released with generated outcomes; synctest.Wait() after every action makes each case deterministic at blocking-point granularity. Oracle: no overlapping invocations per key, every call terminates, errors/panics reach only overlapping callers, no in-flight record left, a later Get loads afresh.",
                "DESIGN.md §6 C08", "Deterministic only at durable blocking points (channel/WaitGroup); preemption inside non-blocking code is not explored here. Reload panics on the default executor crash the process and are generated only with a harness-owned executor.", "generated schedules in a synctest bubble with gated loaders (rapid)")
META["C09"] = m("Scripts in a synctest bubble place every kind of explicit write in each window of a load (before registration via the get.afterMiss hook gate, while the loader runs, after it returned via the load.beforeInstall hook gate, after installation) and compare the settled contents with 'the explicit write wins iff it superseded the load'.",
                "DESIGN.md §6 C09, §7", "Deterministic at blocking-point granularity; the two hook points are the only places inside the cache where the script parks a goroutine (no lock is held there).", "generated write placements around gated loads in a synctest bubble (rapid)")
META["C14"] = m("Hook-point cooperative scheduling: writer/reader threads and the goroutines started by the default executor are parked at every verif hook point of the drain-status protocol, the try-lock hand-off, maintenance, evictions and the write buffer; a generated []int picks which parked thread runs next. Once every thread and every cache-started goroutine has finished, and without any further cache call, the drain status must be idle, the write buffer empty, the size bound restored and every removal notified.",
                "DESIGN.md §3.2 (S3), §6 C14", "Interleavings are explored at hook-point granularity; a 2 ms watchdog hands control on when a thread blocks on a mutex or spins (this only adds legal concurrency). 'Eventually' is judged as 'the quiescent state has no pending work'. A scheduler hang is inconclusive.", "generated schedules on a hook-point cooperative scheduler (rapid)")
S3NOTE = " The concurrent variants run the same oracle on the hook-point scheduler (interleavings at hook granularity) and on free-running goroutines (schedules sampled by the Go runtime)."
for _p in ("C04", "C05", "C06"):
    META[_p]["note"] = S1NOTE + S3NOTE
    META[_p]["technique"] += "; same oracle under generated schedules (hook-point scheduler) and free-running stress"
META["C03"]["note"] = S1NOTE + " The phase variant runs free-running goroutines with the clock moved only at barriers and judges reads against a schedule-independent upper bound of each value's deadline."
META["C13"]["text"] += " A second test parks a Set inside Clock.NowNano (synctest bubble), moves the clock and runs maintenance before releasing it, so the entry is scheduled behind the timer wheel's time."
META["C13"]["note"] = S1NOTE
META["C20"]["note"] = S1NOTE + " A free-running variant compares totals after quiescence (striped counters under contention)."
META["C08"]["text"] += " A free-running variant releases many callers together on fresh absent keys and rejects any two overlapping loader invocations for one key."
META["C16"]["text"] += " A third test parks producers and the consumer at the hook points between index CAS and publication and inside resize."
META["C17"]["text"] += " A third test parks recorders and the consumer at the hook points between tail CAS and slot store and inside the drain."
MID = " A mid-scale variant (16-160 keys with skewed popularity, maxima 9-150, 60-600 actions) runs the same oracle with the admission window, the probation/protected queues, the hill climber and the sketch's aging at work."
for _p in ("C01", "C04", "C05", "C06", "C07", "C20"):
    META[_p]["text"] += MID
META["C01"]["text"] += " A second interpreter, generic in the key type (strings, structs with strings / padding / interfaces / floats, arrays, +0/-0, interface keys, pointers; a fresh representation of the key on every call), covers the 'any key choice' part of the quantifier."
META["C02"]["text"] += " Compute functions and loaders that panic are part of the operation mix (an atomic read that changes nothing / a failed load); single-writer filler keys are read back across table resizes."
META["C02"]["note"] = S4NOTE + " A porcupine time-out is inconclusive."
META["C13"]["text"] += " 'tick' actions fire the clock's ticker so that the cache's own periodic clean-up goroutine runs the maintenance."
META["C19"]["text"] += " Two further tests: the save runs while bystander goroutines compete for the eviction lock without changing the contents (free-running), and the key-type interpreter of C01 saves and reloads caches keyed by strings, structs (incl. padding and zero-valued fields), arrays and floats."
META["C08"]["text"] += " Optional modes: an install gate (finished loads park before their installing step) and a waiting OnDeletion listener on a same-goroutine executor (the release of waiters must not depend on the post-load bookkeeping)."
META["C09"]["text"] += " A free-running variant has one writer per key whose Compute functions keep the bucket locked while a finished load waits for it; once a write has returned the key may never hold the value of a load entered before that write began."
META["C10"]["text"] += " In the synctest world a caller that joined somebody else's load and has returned (v, nil) must find v cached (observed between the loader's return and the installing step)."
META["C12"]["text"] += " On the hook-point scheduler readers run while a write is inside its calculator callbacks (the callbacks are scheduling points): an entry must never be visible before its deadlines were computed."
META["C13"]["text"] += " On the hook-point scheduler deadline-extending touches park inside the calculator while sweeps run; afterwards the clock moves far ahead and maintenance must empty the table."
META["C14"]["text"] += " A free-running variant runs thousands of short rounds with the default executor and judges the quiescent state after each round without a further cache call (windows that contain no hook point)."
META["C17"]["text"] += " At cache level, concurrent programs with frequent InvalidateAll must leave the read buffer empty after the final maintenance."
META["C18"]["text"] += " At cache level the cache's own estimates are compared after every call with a lower bound of the recordings (delivered hits, creations; halved at aging, dropped on re-allocation), with run-time SetMaximum and snapshot loads into a tracking cache."
NOT_APPLICABLE = {}
