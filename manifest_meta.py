META = {
    "C01": {
        "text": "Model-based property testing: rapid-generated operation scripts over all 12 node layouts are executed on one goroutine (inline executor, manual clock) and every return value plus the full key space is compared with a map-with-deadlines reference model after every step; automatic removals are reconciled through the deletion events. Held on all generated cases; no absence claim.",
        "design_ref": "DESIGN.md §5, §6 C01",
        "note": "Trusts the Go runtime; the reference model (harness/vh/s1.go) is the specification; eviction victims depend on a random hash seed inside the cache, so a failing script may need several replays.",
        "technique": "stateful model-based property testing (rapid) against a reference map-with-deadlines model",
    },
}
NOT_APPLICABLE = {}
