#!/usr/bin/env python3
"""Regenerates MANIFEST.json from checks_table.py and manifest_meta.py."""
import json
import subprocess
from checks_table import TESTS
from manifest_meta import META, NOT_APPLICABLE

hooks_commits = subprocess.run(["git", "-C", "/repo", "log", "--format=%H %s", "--grep=^verif hooks"], stdout=subprocess.PIPE, text=True).stdout.strip().splitlines()
props = [json.loads(l) for l in open("/verif/properties.jsonl")]
checks = []
na = []
for p in props:
    pid = p["id"]
    if pid in TESTS and pid in META:
        m = META[pid]
        checks.append({
            "property_id": pid,
            "quick_cmd": f"./check {pid} quick",
            "thorough_cmd": f"./check {pid} thorough",
            "evidence_file": f"/verif/evidence/{pid}.json",
            "replay_cmd_template": f"./check {pid} replay {{path}}",
            "engine": "harness",
            "level_claimed": {"category": "exploration", "text": m["text"], "design_ref": m["design_ref"]},
            "level_note": m["note"],
            "technique": m["technique"],
        })
    else:
        na.append({"property_id": pid, "reason": NOT_APPLICABLE.get(pid, "check not built yet in this session; see DESIGN.md")})
man = {
    "version": 1,
    "setup_cmd": "./check build",
    "hooks": {
        "guard": "verif",
        "enable": "go1.26.8 test -c -tags verif (GOTOOLCHAIN=local GOFLAGS=-mod=mod GOPROXY=off GOSUMDB=off); the harness module replaces github.com/maypok86/otter/v2 with /repo",
        "baseline_off_cmd": "cd /repo && env -u GOSUMDB -u GOTOOLCHAIN GOFLAGS=-mod=mod GOPROXY=off go test -json -vet=off -count=1 -timeout 25m ./...",
        "source_commits": [l.split()[0] for l in hooks_commits],
        "add_only": True,
    },
    "engines": [{
        "name": "harness", "path": "/verif/harness",
        "serves_properties": [c["property_id"] for c in checks],
        "kind_free_text": "Go module (rapid v1.3.0 property-based testing, porcupine v1.3.0 linearizability oracle, testing/synctest) driven by /verif/check",
    }],
    "checks": checks,
    "not_applicable": na,
    "notes": "All checks are generated-input search against explicit oracles (reference model, conservation, linearizability, component models). "
             "exit 2 from ./check means inconclusive/infrastructure, never a violation. Known findings: /verif/KNOWN_FINDINGS.json.",
}
json.dump(man, open("/verif/MANIFEST.json", "w"), indent=1)
print("MANIFEST.json:", len(checks), "checks,", len(na), "not applicable")
