package vh

import (
	"encoding/json"
	"fmt"
	"hash/fnv"
	"os"
	"path/filepath"
	"sort"
	"sync"
	"time"
)

// Evid collects what one test function actually covered. One part file per
// (property, test) is written to $VERIF_OUT; the driver merges the parts of all
// shards into /verif/evidence/<id>.json.
type Evid struct {
	mu          sync.Mutex
	Prop        string
	Test        string
	Rule        string
	Assumptions []string
	start       time.Time

	evaluations int
	nontrivial  int
	sigs        map[uint64]struct{}
	classes     map[string]int
	samples     []any
	excluded    map[string]int
	inconcl     int
	aborted     int
	extra       map[string]any
	known       map[string]int
}

// NewEvid creates a collector.
func NewEvid(prop, test, rule string, assumptions ...string) *Evid {
	return &Evid{
		Prop: prop, Test: test, Rule: rule, Assumptions: assumptions,
		start:    time.Now(),
		sigs:     map[uint64]struct{}{},
		classes:  map[string]int{},
		excluded: map[string]int{},
		extra:    map[string]any{},
		known:    map[string]int{},
	}
}

// Sig hashes a list of strings into a 64-bit case signature.
func Sig(parts ...string) uint64 {
	h := fnv.New64a()
	for _, p := range parts {
		h.Write([]byte(p))
		h.Write([]byte{0})
	}
	return h.Sum64()
}

// Case records one executed case.
func (e *Evid) Case(sig uint64, nontrivial bool, classes []string, sample func() any) {
	e.mu.Lock()
	defer e.mu.Unlock()
	e.evaluations++
	for _, c := range classes {
		e.classes[c]++
	}
	if nontrivial {
		e.nontrivial++
		if _, ok := e.sigs[sig]; !ok {
			e.sigs[sig] = struct{}{}
			// keep a few spread-out samples of non-trivial cases
			n := len(e.sigs)
			if sample != nil && len(e.samples) < 4 && (n == 1 || n == 10 || n == 100 || n == 1000) {
				e.samples = append(e.samples, sample())
			}
		}
	}
}

// Class bumps a class counter without counting a case.
func (e *Evid) Class(name string, n int) {
	e.mu.Lock()
	e.classes[name] += n
	e.mu.Unlock()
}

// Excluded counts a case (or observation) excluded by construction because it
// matches a listed known finding.
func (e *Evid) Excluded(name string) {
	e.mu.Lock()
	e.excluded[name]++
	e.mu.Unlock()
}

// Known records that a listed known finding was observed.
func (e *Evid) Known(name string) {
	e.mu.Lock()
	e.known[name]++
	e.mu.Unlock()
}

// Aborted counts a case that stopped early because the model and the cache
// disagreed on a facet this property does not judge.
func (e *Evid) Aborted() {
	e.mu.Lock()
	e.aborted++
	e.mu.Unlock()
}

// Inconclusive counts a case that hit a budget.
func (e *Evid) Inconclusive() {
	e.mu.Lock()
	e.inconcl++
	e.mu.Unlock()
}

// Set stores an extra key in the coverage object.
func (e *Evid) Set(key string, v any) {
	e.mu.Lock()
	e.extra[key] = v
	e.mu.Unlock()
}

// Evaluations returns the number of cases so far.
func (e *Evid) Evaluations() int {
	e.mu.Lock()
	defer e.mu.Unlock()
	return e.evaluations
}

type evidPart struct {
	Prop        string         `json:"property_id"`
	Test        string         `json:"test"`
	Rule        string         `json:"rule"`
	Assumptions []string       `json:"assumptions"`
	Evaluations int            `json:"evaluations"`
	NonTrivial  int            `json:"nontrivial"`
	Sigs        []uint64       `json:"sigs"`
	Distinct    int            `json:"distinct"`
	Classes     map[string]int `json:"classes"`
	Samples     []any          `json:"samples"`
	Excluded    map[string]int `json:"excluded_known"`
	Known       map[string]int `json:"known_observed"`
	Inconcl     int            `json:"inconclusive"`
	Aborted     int            `json:"aborted_other_facet"`
	Extra       map[string]any `json:"extra"`
	WallS       float64        `json:"wall_s"`
	Failed      bool           `json:"failed"`
}

// Write writes the part file (no-op when VERIF_OUT is unset).
func (e *Evid) Write(failed bool) {
	dir := os.Getenv("VERIF_OUT")
	if dir == "" {
		return
	}
	e.mu.Lock()
	defer e.mu.Unlock()
	p := evidPart{
		Prop: e.Prop, Test: e.Test, Rule: e.Rule, Assumptions: e.Assumptions,
		Evaluations: e.evaluations, NonTrivial: e.nontrivial, Distinct: len(e.sigs),
		Classes: e.classes, Samples: e.samples, Excluded: e.excluded, Known: e.known,
		Inconcl: e.inconcl, Aborted: e.aborted, Extra: e.extra,
		WallS: time.Since(e.start).Seconds(), Failed: failed,
	}
	if len(e.sigs) <= 300000 {
		p.Sigs = make([]uint64, 0, len(e.sigs))
		for s := range e.sigs {
			p.Sigs = append(p.Sigs, s)
		}
		sort.Slice(p.Sigs, func(i, j int) bool { return p.Sigs[i] < p.Sigs[j] })
	}
	b, err := json.Marshal(p)
	if err != nil {
		fmt.Fprintf(os.Stderr, "evid: marshal: %v\n", err)
		return
	}
	shard := os.Getenv("VERIF_SHARD")
	if shard == "" {
		shard = "0"
	}
	name := filepath.Join(dir, fmt.Sprintf("%s.%s.%s.json", e.Prop, e.Test, shard))
	if err := os.WriteFile(name, b, 0o644); err != nil {
		fmt.Fprintf(os.Stderr, "evid: write: %v\n", err)
	}
}

// Violation prints the marker line the driver turns into a VIOLATION line and
// saves the replay artefact.
func ReportViolation(prop, test string, replay any, msg string) string {
	dir := os.Getenv("VERIF_REPLAY_DIR")
	path := ""
	if dir != "" {
		seed := os.Getenv("VERIF_SEED_EFF")
		if seed == "" {
			seed = "0"
		}
		path = filepath.Join(dir, fmt.Sprintf("%s-%s-%s.json", prop, test, seed))
		b, err := json.MarshalIndent(map[string]any{"property": prop, "test": test, "message": msg, "case": replay}, "", " ")
		if err == nil {
			_ = os.WriteFile(path, b, 0o644)
		}
	}
	fmt.Printf("VERIF-VIOLATION property=%s test=%s replay=%s\n", prop, test, path)
	return path
}

// KnownFindingLine prints the KNOWN-FINDING marker (deduplicated by the driver).
func KnownFindingLine(prop, what string) {
	fmt.Printf("KNOWN-FINDING: property=%s %s\n", prop, what)
}

// ReportViolationAt prints the marker for a replayed case.
func ReportViolationAt(prop, test, path string) {
	fmt.Printf("VERIF-VIOLATION property=%s test=%s replay=%s\n", prop, test, path)
}
