package vh

import (
	"math"

	"pgregory.net/rapid"
)

// Profile tunes the script generator for one property.
type Profile struct {
	Name string
	// Feature restrictions (0 = any).
	NeedExpiry  bool
	NeedRefresh bool
	NeedBound   bool
	NoBound     bool
	NoExpiry    bool
	NoRefresh   bool
	Executors   []int // allowed executors
	TinyTTL     bool  // TTLs 1..1000ns, advances 1..2000ns (expired-unswept is the norm)
	WideTTL     bool  // TTLs from ns to years (all wheel levels)
	ExtremeDur  bool  // include MaxInt64-style durations and large origins
	BigWeights  bool  // include weights around 2^31..2^32-1 and huge maxima
	Stats       bool
	MinLen      int
	MaxLen      int
	Ops         map[string]int // op weights
	MaxKeys     int
	OnlyExtend  bool // reads/SetExpiresAfter only extend deadlines (C13 proviso): no custom read tables shorter than create
	TinyRefresh bool // refresh durations 1..1000ns
	LongExpiry  bool // expiry durations >= 10000ns (so entries outlive their refresh time)
	// MidScale: 16..MaxKeys keys with a skewed popularity, maxima 9..150 (entries) and long scripts, so that the
	// admission window, the probation/protected queues, the hill climber and the sketch's aging are all at work
	// (with maxima <= 8 the climber's step rounds to nothing and the main queues hold a handful of nodes).
	MidScale bool
}

func pick[T any](t *rapid.T, label string, xs ...T) T {
	return xs[rapid.IntRange(0, len(xs)-1).Draw(t, label)]
}

func genDur(t *rapid.T, p *Profile, label string) int64 {
	if p.TinyTTL {
		return int64(rapid.IntRange(1, 1000).Draw(t, label))
	}
	cls := rapid.IntRange(0, 9).Draw(t, label+"cls")
	switch {
	case cls <= 2:
		return int64(rapid.IntRange(1, 2000).Draw(t, label))
	case cls == 3:
		return Tick + int64(rapid.IntRange(-3, 3).Draw(t, label))
	case cls == 4:
		return int64(rapid.IntRange(1, 120).Draw(t, label)) * 1_000_000_000
	case cls == 5 && (p.WideTTL || p.ExtremeDur):
		return int64(rapid.IntRange(1, 400*24).Draw(t, label)) * 3600 * 1_000_000_000
	case cls == 6 && p.WideTTL:
		// around a wheel span boundary
		sp := pick(t, label+"span", int64(1)<<30, int64(1)<<36, int64(1)<<42, int64(1)<<47, int64(1)<<49)
		return sp*int64(rapid.IntRange(1, 70).Draw(t, label+"m")) + int64(rapid.IntRange(-2, 2).Draw(t, label))
	case cls == 7 && p.ExtremeDur:
		return math.MaxInt64 - int64(rapid.IntRange(0, 3).Draw(t, label))
	case cls == 8 && p.ExtremeDur:
		return int64(rapid.Uint64Range(1<<40, 1<<62).Draw(t, label))
	}
	return int64(rapid.IntRange(1, 5000).Draw(t, label))
}

func genTable(t *rapid.T, p *Profile, label string, allowZero bool) []int64 {
	out := make([]int64, 8)
	isRef := len(label) >= 3 && label[:3] == "ref"
	for i := range out {
		if allowZero && rapid.IntRange(0, 3).Draw(t, label+"z") == 0 {
			out[i] = 0
			continue
		}
		switch {
		case isRef && p.TinyRefresh:
			out[i] = int64(rapid.IntRange(1, 1000).Draw(t, label))
		case !isRef && p.LongExpiry:
			out[i] = int64(rapid.IntRange(10000, 100000).Draw(t, label))
		default:
			out[i] = genDur(t, p, label)
		}
	}
	return out
}

// GenConfig draws a configuration.
func GenConfig(t *rapid.T, p *Profile) Config {
	var c Config
	c.Keys = rapid.IntRange(2, max(2, p.MaxKeys)).Draw(t, "keys")
	if p.MidScale {
		c.Keys = rapid.IntRange(16, max(16, p.MaxKeys)).Draw(t, "midkeys")
	}
	// bound
	bounds := []int{BoundNone, BoundSize, BoundWeight}
	if p.NeedBound {
		bounds = []int{BoundSize, BoundWeight}
	}
	if p.NoBound {
		bounds = []int{BoundNone}
	}
	c.Bound = pick(t, "bound", bounds...)
	if c.Bound != BoundNone {
		if rapid.IntRange(0, 9).Draw(t, "bigmax") == 0 {
			c.Maximum = 1000
		} else {
			c.Maximum = uint64(rapid.IntRange(1, 8).Draw(t, "max"))
		}
		if p.MidScale {
			switch rapid.IntRange(0, 3).Draw(t, "midmaxcls") {
			case 0:
				c.Maximum = uint64(pick(t, "midmaxpow", 16, 32, 64, 128))
			case 1:
				c.Maximum = uint64(rapid.IntRange(41, 150).Draw(t, "midmax"))
			default:
				c.Maximum = uint64(rapid.IntRange(9, 40).Draw(t, "midmax"))
			}
			if c.Bound == BoundWeight {
				c.Maximum *= uint64(rapid.IntRange(1, 4).Draw(t, "midmaxmul"))
			}
		}
	}
	if c.Bound == BoundWeight {
		c.Weights = make([]uint32, 8)
		for i := range c.Weights {
			cls := rapid.IntRange(0, 9).Draw(t, "wcls")
			switch {
			case cls == 0:
				c.Weights[i] = 0
			case cls == 1:
				c.Weights[i] = uint32(c.Maximum) + uint32(rapid.IntRange(1, 3).Draw(t, "wover"))
			case cls == 2 && p.BigWeights:
				c.Weights[i] = uint32(rapid.Uint64Range(1<<31, 1<<32-1).Draw(t, "wbig"))
			default:
				c.Weights[i] = uint32(rapid.IntRange(1, 8).Draw(t, "w"))
			}
		}
		if p.BigWeights && rapid.IntRange(0, 3).Draw(t, "hugeMax") == 0 {
			c.Maximum = rapid.Uint64Range(1<<32, 1<<40).Draw(t, "maxhuge")
		}
	}
	// expiry
	exps := []int{ExpNone, ExpCreating, ExpWriting, ExpAccessing, ExpCustom}
	if p.NeedExpiry {
		exps = exps[1:]
	}
	if p.NoExpiry {
		exps = []int{ExpNone}
	}
	c.Expiry = pick(t, "expiry", exps...)
	switch c.Expiry {
	case ExpCreating, ExpWriting, ExpAccessing:
		c.ExpDur = genTable(t, p, "expdur", false)
	case ExpCustom:
		c.ExpCreate = genTable(t, p, "expcreate", false)
		c.ExpUpdate = genTable(t, p, "expupdate", true)
		c.ExpRead = genTable(t, p, "expread", true)
		if p.OnlyExtend {
			for i := range c.ExpRead {
				c.ExpRead[i] = 0
			}
		}
	}
	refs := []int{RefNone, RefCreating, RefWriting, RefCustom}
	if p.NeedRefresh {
		refs = refs[1:]
	}
	if p.NoRefresh {
		refs = []int{RefNone}
	}
	c.Refresh = pick(t, "refresh", refs...)
	switch c.Refresh {
	case RefCreating, RefWriting:
		c.RefDur = genTable(t, p, "refdur", false)
	case RefCustom:
		c.RefCreate = genTable(t, p, "refcreate", false)
		c.RefUpdate = genTable(t, p, "refupdate", true)
		c.RefReload = genTable(t, p, "refreload", true)
		c.RefFail = genTable(t, p, "reffail", true)
	}
	if c.ExpDur != nil && c.RefDur != nil && rapid.IntRange(0, 3).Draw(t, "sameDur") == 0 {
		// refresh interval == lifetime (the refresh time is never earlier than the expiration time)
		copy(c.RefDur, c.ExpDur)
	}
	if rapid.IntRange(0, 4).Draw(t, "constcalc") == 0 {
		// the constant-duration constructors (ExpiryCreating(d), ExpiryWriting(d), RefreshCreating(d), RefreshWriting(d))
		c.ConstCalc = true
		if c.Expiry == ExpCreating || c.Expiry == ExpWriting {
			for i := range c.ExpDur {
				c.ExpDur[i] = c.ExpDur[0]
			}
		}
		if c.Refresh == RefCreating || c.Refresh == RefWriting {
			for i := range c.RefDur {
				c.RefDur[i] = c.RefDur[0]
			}
		}
	}
	c.InitCap = pick(t, "initcap", 0, 0, 1, 7, 16, 100, 5000)
	c.Stats = p.Stats || rapid.IntRange(0, 3).Draw(t, "stats") == 0
	c.PlainRecorder = c.Stats && rapid.IntRange(0, 3).Draw(t, "plainrecorder") == 0
	origins := []int64{0, 1, 1_000_000_000, 1_700_000_000_000_000_000}
	if p.ExtremeDur {
		origins = append(origins, 1<<62)
	}
	c.Origin = pick(t, "origin", origins...)
	ex := p.Executors
	if len(ex) == 0 {
		ex = []int{ExecInline}
	}
	c.Executor = pick(t, "executor", ex...)
	return c
}

var computeOps = []string{"write", "write", "cancel", "invalidate", "panic", "invalid"}
var loadOuts = []string{"val", "val", "val", "err", "notfound", "wrappednotfound", "panic"}
var bulkOuts = []string{"full", "full", "partial", "extra", "partialextra", "empty", "nil", "err", "errpartial", "errextra", "errnotfound", "panic"}

// GenAction draws one action according to the profile's op weights.
func GenAction(t *rapid.T, p *Profile, cfg *Config, ops []string) Action {
	a := Action{Op: ops[rapid.IntRange(0, len(ops)-1).Draw(t, "op")]}
	a.K = rapid.IntRange(0, cfg.Keys-1).Draw(t, "k")
	if p.MidScale {
		// skewed popularity: the minimum of up to three uniform draws (shrinks towards key 0)
		for i := rapid.IntRange(0, 2).Draw(t, "kskew"); i > 0; i-- {
			a.K = min(a.K, rapid.IntRange(0, cfg.Keys-1).Draw(t, "k2"))
		}
	}
	a.W = rapid.IntRange(0, 7).Draw(t, "w")
	a.D = rapid.IntRange(0, 7).Draw(t, "d")
	switch a.Op {
	case "compute", "computeifabsent", "computeifpresent":
		a.Cop = pick(t, "cop", computeOps...)
	case "get", "refresh":
		a.Out = pick(t, "out", loadOuts...)
		if rapid.IntRange(0, 5).Draw(t, "ctxdone") == 0 {
			a.Ctx = 1
		}
	case "bulkget", "bulkrefresh":
		a.Out = pick(t, "bout", bulkOuts...)
		if rapid.IntRange(0, 5).Draw(t, "ctxdone") == 0 {
			a.Ctx = 1
		}
		n := rapid.IntRange(0, 6).Draw(t, "nks")
		a.Ks = make([]int, n)
		for i := range a.Ks {
			a.Ks[i] = rapid.IntRange(0, cfg.Keys-1).Draw(t, "bk")
		}
		a.Sel = rapid.IntRange(0, 1<<16-1).Draw(t, "sel")
	case "setexpiresafter", "setrefreshableafter":
		if rapid.IntRange(0, 9).Draw(t, "durspecial") == 0 {
			if p.ExtremeDur {
				a.Dur = int64(pick(t, "dursp", 0, -5, -1, -2, -3, -4))
			} else {
				a.Dur = int64(pick(t, "dursp", 0, -5))
			}
		} else {
			a.Dur = genDur(t, p, "dur")
		}
	case "iter":
		a.N = rapid.IntRange(0, 4).Draw(t, "which")
		if rapid.IntRange(0, 2).Draw(t, "late") == 0 {
			a.Dur = genDur(t, p, "latedur")
		}
		if rapid.IntRange(0, 3).Draw(t, "early") == 0 {
			a.D = rapid.IntRange(1, 3).Draw(t, "stopafter")
		}
		if rapid.IntRange(0, 3).Draw(t, "miditer") == 0 {
			a.Sel = 7 // the clock moves during the iteration (after the first element)
			a.Dur = genDur(t, p, "middur")
		}
	case "setmaximum":
		a.N = rapid.IntRange(0, 12).Draw(t, "newmax")
		if p.MidScale && rapid.IntRange(0, 3).Draw(t, "midnewmaxcls") != 0 {
			a.N = rapid.IntRange(0, 300).Draw(t, "midnewmax")
		}
	case "advance":
		if p.TinyTTL || p.TinyRefresh {
			a.Dur = int64(rapid.IntRange(1, 2000).Draw(t, "adv"))
		} else {
			cls := rapid.IntRange(0, 9).Draw(t, "advcls")
			switch {
			case cls <= 3:
				a.Dur = int64(rapid.IntRange(1, 3000).Draw(t, "adv"))
			case cls == 4:
				a.Dur = Tick + int64(rapid.IntRange(-2, 2).Draw(t, "adv"))
			case cls == 5:
				a.Dur = Tick * int64(rapid.IntRange(1, 200).Draw(t, "adv"))
			case cls == 6 && p.WideTTL:
				a.Dur = int64(rapid.IntRange(1, 100*365).Draw(t, "advdays")) * 86400 * 1_000_000_000
			case cls == 7 && p.WideTTL:
				sp := pick(t, "advspan", int64(1)<<30, int64(1)<<36, int64(1)<<42, int64(1)<<47, int64(1)<<49)
				a.Dur = sp*int64(rapid.IntRange(1, 130).Draw(t, "advm")) + int64(rapid.IntRange(-2, 2).Draw(t, "adv"))
			default:
				a.Dur = int64(rapid.IntRange(1, 120).Draw(t, "advs")) * 1_000_000_000
			}
		}
	case "advanceto":
		a.N = rapid.IntRange(-1, 1).Draw(t, "delta")
	case "runtasks":
		a.N = rapid.IntRange(1, 4).Draw(t, "ntasks")
	case "readburst":
		a.N = rapid.IntRange(17, 120).Draw(t, "nreads")
		a.Sel = rapid.IntRange(0, 4).Draw(t, "stride")
		if rapid.IntRange(0, 2).Draw(t, "pattern") == 0 {
			a.Sel = rapid.IntRange(5, 9).Draw(t, "patternsel")
			a.N = 17 * rapid.IntRange(1, 3).Draw(t, "n17")
		}
	case "burst":
		a.N = rapid.IntRange(2050, 2300).Draw(t, "nburst")
		a.Sel = rapid.IntRange(0, 59).Draw(t, "span")
	case "saveload":
		a.N = rapid.IntRange(0, 10).Draw(t, "tmax")
		a.Sel = rapid.IntRange(0, 9).Draw(t, "slfile") // 1: through SaveCacheToFile / LoadCacheFromFile (a file in a directory that does not exist yet)
		cls := rapid.IntRange(0, 3).Draw(t, "slcls")
		switch cls {
		case 0:
			a.Dur = 0
		case 1:
			a.Dur = -int64(rapid.IntRange(1, 8).Draw(t, "sldl"))
		default:
			a.Dur = genDur(t, p, "sladv")
		}
	}
	return a
}

// expandOps turns the weight map into a slice (deterministic order).
func expandOps(p *Profile, cfg *Config) []string {
	order := []string{"set", "setifabsent", "getifpresent", "getentry", "getentryquietly", "compute", "computeifabsent",
		"computeifpresent", "invalidate", "invalidateall", "setexpiresafter", "setrefreshableafter", "get", "bulkget",
		"refresh", "bulkrefresh", "iter", "setmaximum", "getmaximum", "cleanup", "advance", "advanceto", "runtasks",
		"quiesce", "saveload", "burst", "readburst"}
	var out []string
	for _, op := range order {
		w := p.Ops[op]
		if w == 0 {
			continue
		}
		switch op {
		case "runtasks", "burst":
			if cfg.Executor != ExecDeferred {
				continue
			}
		case "setmaximum":
			if cfg.Bound == BoundNone {
				continue
			}
		case "advance", "advanceto":
			if !cfg.WithTime() {
				w = 1
			}
		case "setexpiresafter":
			if cfg.Expiry == ExpNone {
				w = 1
			}
		case "setrefreshableafter", "refresh", "bulkrefresh":
			if cfg.Refresh == RefNone {
				w = 1
			}
		}
		for i := 0; i < w; i++ {
			out = append(out, op)
		}
	}
	return out
}

// GenScript draws a whole script.
func GenScript(t *rapid.T, p *Profile) *Script {
	cfg := GenConfig(t, p)
	ops := expandOps(p, &cfg)
	ag := rapid.Custom(func(t *rapid.T) Action { return GenAction(t, p, &cfg, ops) })
	s := &Script{Cfg: cfg}
	// rapid's slice lengths average about min+max(min,5): pick the minimum from a few classes so that
	// long scripts are common while a failing case can still shrink to the smallest class
	lo := pick(t, "lenclass", p.MinLen, 8, 25)
	if p.MidScale {
		lo = pick(t, "midlenclass", p.MinLen, p.MaxLen/4, p.MaxLen/2)
	}
	if lo < p.MinLen {
		lo = p.MinLen
	}
	if lo > p.MaxLen {
		lo = p.MaxLen
	}
	s.Actions = rapid.SliceOfN(ag, lo, p.MaxLen).Draw(t, "actions")
	return s
}

// BaseOps is the op mix of the general conformance profile.
func BaseOps() map[string]int {
	return map[string]int{
		"set": 10, "setifabsent": 5, "getifpresent": 6, "getentry": 3, "getentryquietly": 2,
		"compute": 6, "computeifabsent": 4, "computeifpresent": 4, "invalidate": 4, "invalidateall": 1,
		"setexpiresafter": 3, "setrefreshableafter": 2, "get": 6, "bulkget": 4, "refresh": 2, "bulkrefresh": 2,
		"iter": 3, "setmaximum": 1, "getmaximum": 1, "cleanup": 3, "advance": 8, "advanceto": 4, "runtasks": 6,
	}
}
