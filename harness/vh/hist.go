package vh

import (
	"fmt"
	"sort"
	"strings"
	"time"

	"github.com/anishathalye/porcupine"
)

// HOp is one recorded operation of a concurrent history (input and output).
type HOp struct {
	Kind   string `json:"kind"` // set setifabsent read compute invalidate evict miss begin finish
	Key    int    `json:"key"`
	Client int    `json:"client"`
	Call   int64  `json:"call"`
	Ret    int64  `json:"ret"`

	Val      int    `json:"val,omitempty"`   // value written / loaded / evicted
	Token    int    `json:"token,omitempty"` // load identity
	Cop      string `json:"cop,omitempty"`   // compute decision taken by the callback
	Calls    int    `json:"calls,omitempty"` // callback invocations
	SawOld   int    `json:"saw_old,omitempty"`
	SawFound bool   `json:"saw_found,omitempty"`

	OutVal int  `json:"out_val,omitempty"`
	OutOK  bool `json:"out_ok,omitempty"`
	OutErr bool `json:"out_err,omitempty"`
	// MayDrop: the cache has an eviction/expiration policy; its maintenance may silently drop an in-flight
	// load (when it evicts a stale node of the same key), so the load's installation is optional.
	MayDrop bool `json:"may_drop,omitempty"`
	// Exempt (filled by the checker in relaxed mode): tokens of loads that registered while this write call was
	// in progress; the relaxed model lets them survive the write (known finding KF-C09-write-window).
	Exempt []int  `json:"-"`
	Note   string `json:"note,omitempty"`
}

func (o HOp) String() string {
	switch o.Kind {
	case "set", "setifabsent":
		return fmt.Sprintf("[%d,%d] c%d %s(%d,%d)->(%d,%v)", o.Call, o.Ret, o.Client, o.Kind, o.Key, o.Val, o.OutVal, o.OutOK)
	case "read":
		return fmt.Sprintf("[%d,%d] c%d read(%d)->(%d,%v) %s", o.Call, o.Ret, o.Client, o.Key, o.OutVal, o.OutOK, o.Note)
	case "joinhit":
		return fmt.Sprintf("[%d,%d] c%d get-without-loading(%d)->%d (value of load #%d)", o.Call, o.Ret, o.Client, o.Key, o.OutVal, o.Token)
	case "compute":
		return fmt.Sprintf("[%d,%d] c%d compute(%d) saw(%d,%v) %s %d ->(%d,%v)", o.Call, o.Ret, o.Client, o.Key, o.SawOld, o.SawFound, o.Cop, o.Val, o.OutVal, o.OutOK)
	case "invalidate":
		return fmt.Sprintf("[%d,%d] c%d invalidate(%d)->(%d,%v)", o.Call, o.Ret, o.Client, o.Key, o.OutVal, o.OutOK)
	case "evict":
		return fmt.Sprintf("[%d,%d] evict(%d,%d) %s", o.Call, o.Ret, o.Key, o.Val, o.Note)
	default:
		return fmt.Sprintf("[%d,%d] c%d %s(%d) token %d val %d err %v", o.Call, o.Ret, o.Client, o.Kind, o.Key, o.Token, o.Val, o.OutErr)
	}
}

// regState is the per-key register. Tokens is the set of loads that are registered and not yet cancelled,
// encoded as ",id,id," (a comparable value). More than one can be registered at a time: a finishing load
// unregisters itself and publishes its value in one critical section that lock-free lookups and the
// registration of the next load do not take part in.
type regState struct {
	Present bool
	Val     int
	Tokens  string
}

func hasTok(set string, id int) bool { return strings.Contains(set, fmt.Sprintf(",%d,", id)) }
func addTok(set string, id int) string {
	if set == "" {
		set = ","
	}
	return set + fmt.Sprintf("%d,", id)
}
func delTok(set string, id int) string {
	r := strings.Replace(set, fmt.Sprintf(",%d,", id), ",", 1)
	if r == "," {
		return ""
	}
	return r
}

func regStep(state, input, _ interface{}) (bool, interface{}) {
	st := state.(regState)
	in := input.(HOp)
	switch in.Kind {
	case "set":
		if st.Present {
			if in.OutOK || in.OutVal != st.Val {
				return false, st
			}
		} else if !in.OutOK || in.OutVal != in.Val {
			return false, st
		}
		return true, regState{true, in.Val, ""}
	case "setifabsent":
		if st.Present {
			return !in.OutOK && in.OutVal == st.Val, st
		}
		if !in.OutOK || in.OutVal != in.Val {
			return false, st
		}
		return true, regState{true, in.Val, ""}
	case "read":
		if in.OutOK != st.Present || (in.OutOK && in.OutVal != st.Val) {
			return false, st
		}
		return true, st
	case "compute":
		if in.SawFound != st.Present || (in.SawFound && in.SawOld != st.Val) {
			return false, st
		}
		switch in.Cop {
		case "write":
			return in.OutOK && in.OutVal == in.Val, regState{true, in.Val, ""}
		case "invalidate":
			return !in.OutOK, regState{false, 0, ""}
		default: // cancel
			if in.OutOK != st.Present || (in.OutOK && in.OutVal != st.Val) {
				return false, st
			}
			return true, st
		}
	case "invalidate":
		if in.OutOK != st.Present || (in.OutOK && in.OutVal != st.Val) {
			return false, st
		}
		return true, regState{false, 0, ""}
	case "evict":
		if !st.Present || st.Val != in.Val {
			return false, st
		}
		return true, regState{false, 0, ""}
	case "joinhit":
		// A Get that returned the value of somebody else's load without invoking the loader: either it found the
		// installed value, or it waited for that load, which hands out its result only after the installing step (or
		// after a write has cancelled the load). Its interval starts at the loader's exit.
		return (st.Present && st.Val == in.OutVal) || !hasTok(st.Tokens, in.Token), st
	case "miss":
		return !st.Present, st
	case "begin":
		return true, regState{st.Present, st.Val, addTok(st.Tokens, in.Token)}
	case "finish":
		if !hasTok(st.Tokens, in.Token) {
			return true, st
		}
		if in.OutErr {
			return true, regState{st.Present, st.Val, delTok(st.Tokens, in.Token)}
		}
		return true, regState{true, in.Val, delTok(st.Tokens, in.Token)}
	}
	return false, st
}

func regStepND(state, input, output interface{}) []interface{} {
	st := state.(regState)
	in := input.(HOp)
	if in.Kind == "finish" && in.MayDrop && hasTok(st.Tokens, in.Token) && !in.OutErr {
		return []interface{}{regState{true, in.Val, delTok(st.Tokens, in.Token)}, regState{st.Present, st.Val, delTok(st.Tokens, in.Token)}}
	}
	ok, ns := regStep(state, input, output)
	if !ok {
		return nil
	}
	out := []interface{}{ns}
	if len(in.Exempt) > 0 && st.Tokens != "" {
		n := ns.(regState)
		if n.Tokens == "" && n.Present && (in.Kind == "set" || in.Kind == "setifabsent" || in.Kind == "compute") {
			keep := ""
			for _, t := range in.Exempt {
				if hasTok(st.Tokens, t) {
					keep = addTok(keep, t)
				}
			}
			if keep != "" && !(in.Kind == "setifabsent" && st.Present) {
				out = append(out, regState{n.Present, n.Val, keep})
			}
		}
		// A removal (Invalidate, invalidating Compute, eviction) cancels the in-flight loads of its key at the start of
		// its table computation and takes effect when that computation ends. A load that registers in between is not
		// cancelled and installs its value afterwards, which "the removal, then the load" explains sequentially. A load
		// whose registration interval overlaps the removal in real time may therefore survive it.
		if n.Tokens == "" && !n.Present && (in.Kind == "invalidate" || in.Kind == "evict" || (in.Kind == "compute" && in.Cop == "invalidate")) {
			keep := ""
			for _, t := range in.Exempt {
				if hasTok(st.Tokens, t) {
					keep = addTok(keep, t)
				}
			}
			if keep != "" {
				out = append(out, regState{false, 0, keep})
			}
		}
	}
	return out
}

// exemptRemovals fills Exempt of every removal with the tokens of the loads whose registration overlaps it in real time.
func exemptRemovals(ops []HOp) []HOp {
	out := append([]HOp(nil), ops...)
	for i := range out {
		w := &out[i]
		if !(w.Kind == "invalidate" || w.Kind == "evict" || (w.Kind == "compute" && w.Cop == "invalidate")) {
			continue
		}
		for _, b := range ops {
			if b.Kind == "begin" && b.Key == w.Key && b.Call <= w.Ret && w.Call <= b.Ret {
				w.Exempt = append(w.Exempt, b.Token)
			}
		}
	}
	return out
}

var regModelND = porcupine.NondeterministicModel{
	Partition: func(history []porcupine.Operation) [][]porcupine.Operation {
		m := map[int][]porcupine.Operation{}
		var keys []int
		for _, op := range history {
			k := op.Input.(HOp).Key
			if _, ok := m[k]; !ok {
				keys = append(keys, k)
			}
			m[k] = append(m[k], op)
		}
		sort.Ints(keys)
		out := make([][]porcupine.Operation, 0, len(keys))
		for _, k := range keys {
			out = append(out, m[k])
		}
		return out
	},
	Init:              func() []interface{} { return []interface{}{regState{}} },
	Step:              regStepND,
	Equal:             func(a, b interface{}) bool { return a.(regState) == b.(regState) },
	DescribeOperation: func(in, _ interface{}) string { return in.(HOp).String() },
}

var regModel = regModelND.ToModel()

// RelaxWriteWindow fills Exempt for every write: the tokens of loads whose registration interval overlaps
// the write's call interval.
func RelaxWriteWindow(ops []HOp) []HOp {
	out := append([]HOp(nil), ops...)
	for i := range out {
		w := &out[i]
		if w.Kind != "set" && w.Kind != "setifabsent" && w.Kind != "compute" {
			continue
		}
		for _, b := range ops {
			if b.Kind == "begin" && b.Key == w.Key && b.Call <= w.Ret && w.Call <= b.Ret {
				w.Exempt = append(w.Exempt, b.Token)
			}
		}
	}
	return out
}

// CheckHistory decides per-key linearizability of a recorded history.
// result: "ok", "illegal" or "unknown" (time budget hit: inconclusive).
func CheckHistory(ops []HOp, timeout time.Duration) (result string, detail string) {
	ops = exemptRemovals(ops)
	h := make([]porcupine.Operation, 0, len(ops))
	for _, o := range ops {
		h = append(h, porcupine.Operation{ClientId: o.Client, Input: o, Call: o.Call, Return: o.Ret})
	}
	res := porcupine.CheckOperationsTimeout(regModel, h, timeout)
	switch res {
	case porcupine.Ok:
		return "ok", ""
	case porcupine.Unknown:
		return "unknown", ""
	}
	// find the offending key(s) for the message
	byKey := map[int][]HOp{}
	for _, o := range ops {
		byKey[o.Key] = append(byKey[o.Key], o)
	}
	var keys []int
	for k := range byKey {
		keys = append(keys, k)
	}
	sort.Ints(keys)
	for _, k := range keys {
		hk := make([]porcupine.Operation, 0, len(byKey[k]))
		for _, o := range byKey[k] {
			hk = append(hk, porcupine.Operation{ClientId: o.Client, Input: o, Call: o.Call, Return: o.Ret})
		}
		if porcupine.CheckOperationsTimeout(regModel, hk, timeout) == porcupine.Illegal {
			ops := byKey[k]
			// the longest partial linearization tells which operations could be explained; show the
			// neighbourhood of the earliest one that could not
			_, info := porcupine.CheckOperationsVerbose(regModel, hk, timeout)
			inLongest := map[int]bool{}
			longest := 0
			for _, part := range info.PartialLinearizations() {
				for _, lin := range part {
					if len(lin) > longest {
						longest = len(lin)
						inLongest = map[int]bool{}
						for _, idx := range lin {
							inLongest[idx] = true
						}
					}
				}
			}
			type io struct {
				i int
				o HOp
			}
			var all []io
			for i, o := range ops {
				all = append(all, io{i, o})
			}
			sort.Slice(all, func(i, j int) bool { return all[i].o.Call < all[j].o.Call })
			first := len(all) - 1
			for pos, x := range all {
				if !inLongest[x.i] {
					first = pos
					break
				}
			}
			var b strings.Builder
			fmt.Fprintf(&b, "history of key %d (%d operations) is not linearizable; at most %d of them can be explained; operations around the first unexplained one (marked *):", k, len(ops), longest)
			from, to := first-25, first+12
			if from < 0 {
				from = 0
			}
			if to > len(all) {
				to = len(all)
			}
			for _, x := range all[from:to] {
				mark := " "
				if !inLongest[x.i] {
					mark = "*"
				}
				fmt.Fprintf(&b, "\n %s %s", mark, x.o)
			}
			return "illegal", b.String()
		}
	}
	return "illegal", "history is not linearizable"
}
