package vh

import (
	"context"
	"fmt"
	"math"
	"sync"
	"sync/atomic"
	"time"

	"github.com/maypok86/otter/v2"
	"github.com/maypok86/otter/v2/stats"
)

// Tick is the timer wheel's first-level span (2^30 ns).
const Tick = int64(1) << 30

// Value encoding: every value written by the harness is unique; the low bits
// select the weight class and the duration class so that the Weigher and the
// calculators are pure functions of the value.
func MkVal(seq, w, d int) int { return seq<<6 | (w&7)<<3 | (d & 7) }
func WIdx(v int) int          { return (v >> 3) & 7 }
func DIdx(v int) int          { return v & 7 }
func Seq(v int) int           { return v >> 6 }

const (
	BoundNone = iota
	BoundSize
	BoundWeight
)

const (
	ExpNone = iota
	ExpCreating
	ExpWriting
	ExpAccessing
	ExpCustom
)

const (
	RefNone = iota
	RefCreating
	RefWriting
	RefCustom
)

const (
	ExecInline = iota
	ExecDeferred
)

// Config is the generated configuration of one case. It is plain data.
type Config struct {
	Bound   int      `json:"bound"`
	Maximum uint64   `json:"maximum,omitempty"`
	Weights []uint32 `json:"weights,omitempty"` // 8 entries, indexed by WIdx(value)

	Expiry int `json:"expiry"`
	// ExpDur: 8 entries indexed by DIdx(value); used by the built-in kinds.
	ExpDur []int64 `json:"exp_dur,omitempty"`
	// Custom tables, indexed by DIdx(value); 0 means "leave unchanged"
	// (return entry.ExpiresAfter()), not allowed for create.
	ExpCreate []int64 `json:"exp_create,omitempty"`
	ExpUpdate []int64 `json:"exp_update,omitempty"`
	ExpRead   []int64 `json:"exp_read,omitempty"`

	Refresh   int     `json:"refresh"`
	RefDur    []int64 `json:"ref_dur,omitempty"`
	RefCreate []int64 `json:"ref_create,omitempty"`
	RefUpdate []int64 `json:"ref_update,omitempty"`
	RefReload []int64 `json:"ref_reload,omitempty"`
	RefFail   []int64 `json:"ref_fail,omitempty"`

	InitCap  int   `json:"init_cap,omitempty"`
	Stats    bool  `json:"stats,omitempty"`
	Origin   int64 `json:"origin"`
	Executor int   `json:"executor"`
	Keys     int   `json:"keys"`
	// ConstCalc: the creating/writing calculators are built with the constant-duration constructors
	// (otter.ExpiryCreating(d) ... instead of the ...Func forms); the duration tables are constant then.
	ConstCalc bool `json:"const_calc,omitempty"`
	// PlainRecorder (with Stats): the StatsRecorder is a user-written stats.Recorder without a Snapshot method
	// (Cache.Stats() is empty then; the recorder's own tallies are what is judged).
	PlainRecorder bool `json:"plain_recorder,omitempty"`
}

// Layout returns the node layout name the configuration selects.
func (c *Config) Layout() string {
	s := "b"
	if c.Bound == BoundSize {
		s += "s"
	}
	if c.Expiry != ExpNone {
		s += "e"
	}
	if c.Refresh != RefNone {
		s += "r"
	}
	if c.Bound == BoundWeight {
		s += "w"
	}
	return s
}

func (c *Config) WithTime() bool { return c.Expiry != ExpNone || c.Refresh != RefNone }

// WeightOf returns the weight the cache must assign to value v.
func (c *Config) WeightOf(v int) uint32 {
	if c.Bound != BoundWeight {
		return 1
	}
	return c.Weights[WIdx(v)]
}

// ManualClock is the harness-owned clock.
type ManualClock struct {
	now atomic.Int64
	// Gate, when non-nil, is called at the start of every NowNano call with the
	// value about to be returned; it may block (S2 clock gate).
	Gate func(now int64)
	// TickCh, when non-nil, is what Tick returns: a send on it makes the cache's periodic clean-up goroutine run once.
	TickCh chan time.Time
}

func (m *ManualClock) NowNano() int64 {
	n := m.now.Load()
	if g := m.Gate; g != nil {
		g(n)
	}
	return n
}

// Tick returns the harness-owned tick channel (nil unless TickCh is set: the cache's periodic clean-up never fires then).
func (m *ManualClock) Tick(time.Duration) <-chan time.Time { return m.TickCh }
func (m *ManualClock) Set(n int64)                         { m.now.Store(n) }
func (m *ManualClock) Now() int64                          { return m.now.Load() }
func (m *ManualClock) Advance(d int64) int64               { return m.now.Add(d) }

// Executor is the harness-owned executor: inline or a deferred FIFO queue.
type Executor struct {
	Deferred bool
	mu       sync.Mutex
	queue    []func()
	Submits  int
}

func (e *Executor) Exec(fn func()) {
	e.mu.Lock()
	e.Submits++
	if e.Deferred {
		e.queue = append(e.queue, fn)
		e.mu.Unlock()
		return
	}
	e.mu.Unlock()
	fn()
}

// RunOne runs the oldest queued task; false if none.
func (e *Executor) RunOne() bool {
	e.mu.Lock()
	if len(e.queue) == 0 {
		e.mu.Unlock()
		return false
	}
	fn := e.queue[0]
	e.queue = e.queue[1:]
	e.mu.Unlock()
	fn()
	return true
}

func (e *Executor) Pending() int {
	e.mu.Lock()
	defer e.mu.Unlock()
	return len(e.queue)
}

// SatAdd is the saturating addition the model uses for deadlines.
func SatAdd(a, b int64) (int64, bool) {
	s := a + b
	if b > 0 && s < a {
		return math.MaxInt64, true
	}
	return s, false
}

// HookCall is one calculator invocation observed by the harness.
type HookCall struct {
	Kind  string `json:"kind"` // "exp" or "ref"
	Name  string `json:"name"` // create/update/read/reload/fail or "f" for built-in kinds
	Key   int    `json:"key"`
	Val   int    `json:"val"`
	Old   int    `json:"old,omitempty"`
	Ret   int64  `json:"ret"`
	Entry otter.Entry[int, int]
}

// Hooks holds what the calculators need and what they record.
type Hooks struct {
	Cfg *Config
	mu  sync.Mutex
	Log []HookCall
}

func (h *Hooks) rec(c HookCall) {
	h.mu.Lock()
	h.Log = append(h.Log, c)
	h.mu.Unlock()
}

func (h *Hooks) Take() []HookCall {
	h.mu.Lock()
	l := h.Log
	h.Log = nil
	h.mu.Unlock()
	return l
}

type customExpiry struct{ h *Hooks }

func tab(t []int64, v int) int64 {
	if len(t) == 0 {
		return 0
	}
	return t[DIdx(v)%len(t)]
}

func (c customExpiry) ExpireAfterCreate(e otter.Entry[int, int]) time.Duration {
	d := tab(c.h.Cfg.ExpCreate, e.Value)
	c.h.rec(HookCall{Kind: "exp", Name: "create", Key: e.Key, Val: e.Value, Ret: d, Entry: e})
	return time.Duration(d)
}

func (c customExpiry) ExpireAfterUpdate(e otter.Entry[int, int], old int) time.Duration {
	d := tab(c.h.Cfg.ExpUpdate, e.Value)
	if d == 0 {
		d = int64(e.ExpiresAfter())
	}
	c.h.rec(HookCall{Kind: "exp", Name: "update", Key: e.Key, Val: e.Value, Old: old, Ret: d, Entry: e})
	return time.Duration(d)
}

func (c customExpiry) ExpireAfterRead(e otter.Entry[int, int]) time.Duration {
	d := tab(c.h.Cfg.ExpRead, e.Value)
	if d == 0 {
		d = int64(e.ExpiresAfter())
	}
	c.h.rec(HookCall{Kind: "exp", Name: "read", Key: e.Key, Val: e.Value, Ret: d, Entry: e})
	return time.Duration(d)
}

type customRefresh struct{ h *Hooks }

func (c customRefresh) RefreshAfterCreate(e otter.Entry[int, int]) time.Duration {
	d := tab(c.h.Cfg.RefCreate, e.Value)
	c.h.rec(HookCall{Kind: "ref", Name: "create", Key: e.Key, Val: e.Value, Ret: d, Entry: e})
	return time.Duration(d)
}

func (c customRefresh) RefreshAfterUpdate(e otter.Entry[int, int], old int) time.Duration {
	d := tab(c.h.Cfg.RefUpdate, e.Value)
	if d == 0 {
		d = int64(e.RefreshableAfter())
	}
	c.h.rec(HookCall{Kind: "ref", Name: "update", Key: e.Key, Val: e.Value, Old: old, Ret: d, Entry: e})
	return time.Duration(d)
}

func (c customRefresh) RefreshAfterReload(e otter.Entry[int, int], old int) time.Duration {
	d := tab(c.h.Cfg.RefReload, e.Value)
	if d == 0 {
		d = int64(e.RefreshableAfter())
	}
	c.h.rec(HookCall{Kind: "ref", Name: "reload", Key: e.Key, Val: e.Value, Old: old, Ret: d, Entry: e})
	return time.Duration(d)
}

func (c customRefresh) RefreshAfterReloadFailure(e otter.Entry[int, int], err error) time.Duration {
	d := tab(c.h.Cfg.RefFail, e.Value)
	if d == 0 {
		d = int64(e.RefreshableAfter())
	}
	c.h.rec(HookCall{Kind: "ref", Name: "fail", Key: e.Key, Val: e.Value, Ret: d, Entry: e})
	return time.Duration(d)
}

// Ev is one deletion event observed by the harness.
type Ev struct {
	Key   int                 `json:"key"`
	Val   int                 `json:"val"`
	Cause otter.DeletionCause `json:"cause"`
}

func (e Ev) String() string { return fmt.Sprintf("(%d,%d,%s)", e.Key, e.Val, e.Cause) }

// RecLogger records reload errors instead of flooding stderr.
type RecLogger struct {
	mu     sync.Mutex
	Errors int
	Warns  int
}

func (l *RecLogger) Warn(ctx context.Context, msg string, err error) {
	l.mu.Lock()
	l.Warns++
	l.mu.Unlock()
}

func (l *RecLogger) Error(ctx context.Context, msg string, err error) {
	l.mu.Lock()
	l.Errors++
	l.mu.Unlock()
}

// Env bundles the cache with the harness-owned control points.
type Env struct {
	Cfg    Config
	C      *otter.Cache[int, int]
	Clock  *ManualClock
	Exec   *Executor
	Hooks  *Hooks
	Logger *RecLogger
	Stats  *stats.Counter
	Plain  *PlainRecorder

	evMu     sync.Mutex
	EvAtomic []Ev
	EvAsync  []Ev
	// OnAtomic, when set, is called synchronously from the atomic handler
	// (after recording); used by S2 to stall maintenance.
	OnAtomic func(Ev)
}

// EnvOpts tweaks BuildEnv.
type EnvOpts struct {
	// DefaultExecutor leaves Options.Executor nil.
	DefaultExecutor bool
	// ExecFn overrides the executor with an arbitrary function.
	ExecFn func(func())
	// NoHandlers leaves OnDeletion/OnAtomicDeletion unset.
	NoHandlers bool
}

// BuildEnv creates the cache for a configuration.
func BuildEnv(cfg Config, eo EnvOpts) *Env {
	e := &Env{Cfg: cfg}
	e.Clock = &ManualClock{}
	e.Clock.Set(cfg.Origin)
	e.Exec = &Executor{Deferred: cfg.Executor == ExecDeferred}
	e.Hooks = &Hooks{Cfg: &e.Cfg}
	e.Logger = &RecLogger{}
	o := &otter.Options[int, int]{
		InitialCapacity: cfg.InitCap,
		Clock:           e.Clock,
		Logger:          e.Logger,
	}
	switch {
	case eo.ExecFn != nil:
		o.Executor = eo.ExecFn
	case eo.DefaultExecutor:
	default:
		o.Executor = e.Exec.Exec
	}
	if !eo.NoHandlers {
		o.OnAtomicDeletion = func(d otter.DeletionEvent[int, int]) {
			ev := Ev{d.Key, d.Value, d.Cause}
			e.evMu.Lock()
			e.EvAtomic = append(e.EvAtomic, ev)
			e.evMu.Unlock()
			if f := e.OnAtomic; f != nil {
				f(ev)
			}
		}
		o.OnDeletion = func(d otter.DeletionEvent[int, int]) {
			e.evMu.Lock()
			e.EvAsync = append(e.EvAsync, Ev{d.Key, d.Value, d.Cause})
			e.evMu.Unlock()
		}
	}
	switch cfg.Bound {
	case BoundSize:
		o.MaximumSize = int(cfg.Maximum)
	case BoundWeight:
		o.MaximumWeight = cfg.Maximum
		w := cfg.Weights
		o.Weigher = func(k, v int) uint32 { return w[WIdx(v)] }
	}
	h := e.Hooks
	f := func(en otter.Entry[int, int]) time.Duration {
		d := tab(cfg.ExpDur, en.Value)
		h.rec(HookCall{Kind: "exp", Name: "f", Key: en.Key, Val: en.Value, Ret: d, Entry: en})
		return time.Duration(d)
	}
	switch cfg.Expiry {
	case ExpCreating:
		o.ExpiryCalculator = otter.ExpiryCreatingFunc(f)
		if cfg.ConstCalc {
			o.ExpiryCalculator = otter.ExpiryCreating[int, int](time.Duration(cfg.ExpDur[0]))
		}
	case ExpWriting:
		o.ExpiryCalculator = otter.ExpiryWritingFunc(f)
		if cfg.ConstCalc {
			o.ExpiryCalculator = otter.ExpiryWriting[int, int](time.Duration(cfg.ExpDur[0]))
		}
	case ExpAccessing:
		o.ExpiryCalculator = otter.ExpiryAccessingFunc(f)
	case ExpCustom:
		o.ExpiryCalculator = customExpiry{h}
	}
	g := func(en otter.Entry[int, int]) time.Duration {
		d := tab(cfg.RefDur, en.Value)
		h.rec(HookCall{Kind: "ref", Name: "f", Key: en.Key, Val: en.Value, Ret: d, Entry: en})
		return time.Duration(d)
	}
	switch cfg.Refresh {
	case RefCreating:
		o.RefreshCalculator = otter.RefreshCreatingFunc(g)
		if cfg.ConstCalc {
			o.RefreshCalculator = otter.RefreshCreating[int, int](time.Duration(cfg.RefDur[0]))
		}
	case RefWriting:
		o.RefreshCalculator = otter.RefreshWritingFunc(g)
		if cfg.ConstCalc {
			o.RefreshCalculator = otter.RefreshWriting[int, int](time.Duration(cfg.RefDur[0]))
		}
	case RefCustom:
		o.RefreshCalculator = customRefresh{h}
	}
	if cfg.Stats {
		if cfg.PlainRecorder {
			e.Plain = &PlainRecorder{}
			o.StatsRecorder = e.Plain
		} else {
			e.Stats = stats.NewCounter()
			o.StatsRecorder = e.Stats
		}
	}
	e.C = otter.Must(o)
	return e
}

// PlainRecorder is a minimal user-written stats.Recorder: it implements the five Record methods and nothing else.
type PlainRecorder struct {
	hits, misses, evictions, evictionWeight, loadSuccesses, loadFailures atomic.Uint64
}

func (p *PlainRecorder) RecordHits(count int)   { p.hits.Add(uint64(count)) }
func (p *PlainRecorder) RecordMisses(count int) { p.misses.Add(uint64(count)) }
func (p *PlainRecorder) RecordEviction(weight uint32) {
	p.evictions.Add(1)
	p.evictionWeight.Add(uint64(weight))
}
func (p *PlainRecorder) RecordLoadSuccess(time.Duration) { p.loadSuccesses.Add(1) }
func (p *PlainRecorder) RecordLoadFailure(time.Duration) { p.loadFailures.Add(1) }

// StatsSnapshot returns the statistics as the configured recorder saw them.
func (e *Env) StatsSnapshot() stats.Stats {
	if p := e.Plain; p != nil {
		return stats.Stats{Hits: p.hits.Load(), Misses: p.misses.Load(), Evictions: p.evictions.Load(), EvictionWeight: p.evictionWeight.Load(),
			LoadSuccesses: p.loadSuccesses.Load(), LoadFailures: p.loadFailures.Load()}
	}
	return e.C.Stats()
}

// TakeEvents returns and clears the recorded events.
func (e *Env) TakeEvents() (atomicEv, asyncEv []Ev) {
	e.evMu.Lock()
	atomicEv, asyncEv = e.EvAtomic, e.EvAsync
	e.EvAtomic, e.EvAsync = nil, nil
	e.evMu.Unlock()
	return
}

// Close stops the cache's background goroutine.
func (e *Env) Close() {
	if e.C == nil {
		return
	}
	e.C.StopAllGoroutines()
	// The cache registers a runtime cleanup on the *Cache whose argument (the implementation) references the
	// handler closures, and those reference this Env: while Env.C points back at the *Cache it can never be
	// collected (runtime.AddCleanup: "if ptr is reachable from arg, ptr will never be collected"). Break the cycle.
	e.C = nil
}
