// Package vh is the verification harness library: reference model, script
// interpreter, schedulers, history recorders and the evidence writer.
package vh
