package vh

import (
	"fmt"
	"runtime"
	"strconv"
	"sync"
	"time"

	"github.com/maypok86/otter/v2/internal/verifhook"
)

// Sched is the hook-point cooperative scheduler (substrate S3, "detsched").
// Every logical thread parks at each verifhook.Point; the scheduler resumes
// exactly one parked thread at a time, chosen by the generated schedule. A
// thread that does not reach its next point within the watchdog period (it is
// blocked on a mutex held by a parked thread, or it spins waiting for another
// thread) is marked "unmanaged" and another thread is resumed: this only adds
// legal concurrency, so every explored execution is a legal schedule.
type Sched struct {
	mu       sync.Mutex
	threads  []*sthread
	byGoid   map[int64]*sthread
	schedule []int
	pos      int
	events   chan struct{}
	Trace    []string
	Watchdog time.Duration
	Fired    int // watchdog firings
	Hang     bool
	maxTrace int
	// OnPoint is called (on the thread itself, before parking) for every point reached.
	OnPoint func(thread string, id string)
}

type sthread struct {
	id     int
	name   string
	wake   chan struct{}
	state  int // 0 created, 1 running, 2 parked, 3 done, 4 unmanaged (running without the scheduler waiting for it)
	at     string
	panicV any
}

func goid() int64 {
	var buf [64]byte
	n := runtime.Stack(buf[:], false)
	// "goroutine 123 [running]:"
	b := buf[10:n]
	i := 0
	for i < len(b) && b[i] >= '0' && b[i] <= '9' {
		i++
	}
	v, _ := strconv.ParseInt(string(b[:i]), 10, 64)
	return v
}

// Goid returns the current goroutine's id (used by harnesses to attach per-goroutine context to hook calls).
func Goid() int64 { return goid() }

// NewSched creates a scheduler and installs its hook handler.
func NewSched(schedule []int) *Sched {
	s := &Sched{byGoid: map[int64]*sthread{}, schedule: schedule, events: make(chan struct{}, 1024), Watchdog: 2 * time.Millisecond, maxTrace: 400}
	verifhook.Set(s.point)
	return s
}

// Close removes the hook handler.
func (s *Sched) Close() { verifhook.Set(nil) }

func (s *Sched) notify() {
	select {
	case s.events <- struct{}{}:
	default:
	}
}

func (s *Sched) point(id string) {
	g := goid()
	s.mu.Lock()
	t := s.byGoid[g]
	if t == nil {
		s.mu.Unlock()
		return // a goroutine the scheduler does not own
	}
	if f := s.OnPoint; f != nil {
		s.mu.Unlock()
		f(t.name, id)
		s.mu.Lock()
	}
	t.at = id
	t.state = 2
	if len(s.Trace) < s.maxTrace {
		s.Trace = append(s.Trace, fmt.Sprintf("%s@%s", t.name, id))
	}
	s.mu.Unlock()
	s.notify()
	<-t.wake
}

// Go starts a logical thread. It may be called before Run or from a running thread.
func (s *Sched) Go(name string, fn func()) {
	t := &sthread{name: name, wake: make(chan struct{}, 1)}
	s.mu.Lock()
	t.id = len(s.threads)
	if name == "" {
		t.name = fmt.Sprintf("t%d", t.id)
	} else {
		t.name = fmt.Sprintf("%s%d", name, t.id)
	}
	s.threads = append(s.threads, t)
	s.mu.Unlock()
	ready := make(chan struct{})
	go func() {
		s.mu.Lock()
		s.byGoid[goid()] = t
		t.state = 2
		t.at = "start"
		s.mu.Unlock()
		close(ready)
		s.notify()
		<-t.wake
		defer func() {
			r := recover()
			s.mu.Lock()
			t.panicV = r
			t.state = 3
			delete(s.byGoid, goid())
			s.mu.Unlock()
			s.notify()
		}()
		fn()
	}()
	<-ready
}

// Run drives the threads until all of them have finished. It returns the
// panics raised by threads (if any).
func (s *Sched) Run(timeout time.Duration) []any {
	deadline := time.Now().Add(timeout)
	var current *sthread
	for {
		// wait for the current thread to park/finish, or for the watchdog
		if current != nil {
			wd := time.NewTimer(s.Watchdog)
		wait:
			for {
				s.mu.Lock()
				st := current.state
				s.mu.Unlock()
				if st != 1 {
					break
				}
				select {
				case <-s.events:
				case <-wd.C:
					s.mu.Lock()
					if current.state == 1 {
						current.state = 4
						s.Fired++
						if len(s.Trace) < s.maxTrace {
							s.Trace = append(s.Trace, current.name+"!unmanaged")
						}
					}
					s.mu.Unlock()
					break wait
				}
			}
			wd.Stop()
		}
		// pick the next parked thread
		s.mu.Lock()
		var parked []*sthread
		alive := 0
		for _, t := range s.threads {
			switch t.state {
			case 2:
				parked = append(parked, t)
				alive++
			case 1, 4, 0:
				alive++
			}
		}
		if alive == 0 {
			s.mu.Unlock()
			break
		}
		if len(parked) == 0 {
			s.mu.Unlock()
			// only unmanaged threads are running: wait for one of them to park or finish
			if time.Now().After(deadline) {
				s.Hang = true
				break
			}
			select {
			case <-s.events:
			case <-time.After(5 * time.Millisecond):
			}
			current = nil
			continue
		}
		choice := 0
		if s.pos < len(s.schedule) {
			choice = s.schedule[s.pos]
			s.pos++
		}
		if choice < 0 {
			choice = -choice
		}
		t := parked[choice%len(parked)]
		t.state = 1
		s.mu.Unlock()
		t.wake <- struct{}{}
		current = t
		if time.Now().After(deadline) {
			s.Hang = true
			break
		}
	}
	var ps []any
	s.mu.Lock()
	for _, t := range s.threads {
		if t.panicV != nil {
			ps = append(ps, fmt.Sprintf("%s: %v", t.name, t.panicV))
		}
	}
	s.mu.Unlock()
	if s.Hang {
		// let everything go so that goroutines do not leak
		verifhook.Set(nil)
		s.mu.Lock()
		for _, t := range s.threads {
			if t.state == 2 {
				t.state = 4
				select {
				case t.wake <- struct{}{}:
				default:
				}
			}
		}
		s.mu.Unlock()
	}
	return ps
}
