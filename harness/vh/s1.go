package vh

import (
	"context"
	"errors"
	"fmt"
	"math"
	"os"
	"sort"
	"strings"

	"github.com/maypok86/otter/v2"
)

// Facets select which disagreements between the cache and the model a
// property judges. A disagreement on a facet that is not enabled stops the case
// (model and cache are out of sync) without reporting anything.
type Facet uint32

const (
	FRet      Facet = 1 << iota // return values of operations
	FContents                   // contents after every step (presence, value, weight), size counters
	FIter                       // All/Keys/Values
	FVis                        // return values / side effects on expired-unswept keys, visibility at all times
	FDeadline                   // ExpiresAtNano / RefreshableAtNano, hook selection
	FEvents                     // exactly-once, conservation, causes (C06)
	FJustify                    // Overflow / Expiration only when justified (C07)
	FLoad                       // loader invocations and load outcomes (C10)
	FRefresh                    // refresh behaviour (C11)
	FSweep                      // sweep timing (C13)
	FStats                      // statistics (C20)
	FBound                      // size bound at quiescence (C04)
	FBook                       // bookkeeping at quiescence (C05)
	FPanic                      // unexpected panic escaping an operation
	FOrder                      // single producer: removals of one key are notified (OnDeletion) in the order they happened (C16)
	FAll      Facet = 1<<iota - 1
)

var facetNames = map[Facet]string{FRet: "ret", FContents: "contents", FIter: "iter", FVis: "vis", FDeadline: "deadline",
	FEvents: "events", FJustify: "justify", FLoad: "load", FRefresh: "refresh", FSweep: "sweep", FStats: "stats",
	FBound: "bound", FBook: "book", FPanic: "panic", FOrder: "order"}

// Action is one step of a script. Plain data.
type Action struct {
	Op  string `json:"op"`
	K   int    `json:"k,omitempty"`
	Ks  []int  `json:"ks,omitempty"`
	W   int    `json:"w,omitempty"`
	D   int    `json:"d,omitempty"`
	Dur int64  `json:"dur,omitempty"`
	N   int    `json:"n,omitempty"`
	Cop string `json:"cop,omitempty"`
	Out string `json:"out,omitempty"`
	Sel int    `json:"sel,omitempty"`
	Ctx int    `json:"ctx,omitempty"` // 1: the load call is made with an already cancelled context (alone on its goroutine it behaves like any other call: the loader it starts is handed that context and the harness's loaders ignore it)
}

// Script is a whole case.
type Script struct {
	Cfg     Config   `json:"cfg"`
	Actions []Action `json:"actions"`
}

// MEntry is the model's view of one table entry (possibly expired-unswept).
type MEntry struct {
	Val         int
	W           uint32
	Exp         int64
	Ref         int64
	ExpInf      bool // deadline overflowed: "effectively never"
	RefInf      bool
	WrittenAt   int64
	Shortened   bool // a read / SetExpiresAfter moved the deadline backwards (C13 proviso)
	RefreshSeen bool
}

type pend struct {
	key   int
	val   int
	cause otter.DeletionCause
	w     uint32
	seq   int  // position in the order in which removals happened
	auto  bool // removed by maintenance itself (eviction, sweep), not through a write event of the producer
	// for the sweep obligation (C13): deadline and write time of the removed entry, if it has a finite, never shortened deadline
	exp, writtenAt int64
	sweepable      bool
}

// Violation is a reported disagreement.
type Violation struct {
	Facet Facet
	Step  int
	Msg   string
}

func (v *Violation) Error() string {
	return fmt.Sprintf("step %d [%s]: %s", v.Step, facetNames[v.Facet], v.Msg)
}

// Debug enables tracing of events and loader calls (VERIF_TRACE=1).
var Debug = os.Getenv("VERIF_TRACE") != ""

// ErrAbort means the case stopped on a facet that is not judged.
var ErrAbort = errors.New("aborted: disagreement on a facet not judged by this property")

// RunStats summarises one executed script (for evidence classes).
type RunStats struct {
	Ops                 int
	OpsOnExpired        int // operations applied to an expired-unswept key
	WritesOnExpired     int // non-read operations applied to an expired-unswept key
	AutoOverflow        int
	AutoExpiration      int
	Loads               int
	Reloads             int
	ReloadNotSuccess    int
	DueReads            int
	BulkMixed           int
	OverflowDeadline    int
	BoundaryProbes      int
	CrossedMaximum      bool
	WeightChanges       int
	LoweredMaximum      int
	CascadeEntries      int
	BigJumps            int
	SweepChecks         int
	SweepObligations    int
	QuiesceChecks       int
	MultiWriteBefore    int // >=2 writes to one key between two maintenance runs
	PendingAddGone      int // replacement/invalidation of a value whose add task was still unprocessed
	StatsChecks         int
	SaveLoads           int
	ReadBursts          int
	EarlyExits          int
	ReadBufferSaturated int
	SupersededRefresh   int
	Bursts              int
	SaveLoadExpired     int
	SaveLoadSurvivor    int
	Kinds               []string
	Known               map[string]int
	Excluded            map[string]int
	HooksSeen           map[string]int
	MidIterAdvances     int
}

// Runner interprets a script against the cache and the model.
type Runner struct {
	shapeErr string // a loader was called with an ill-formed argument list (reported at the end of the step)
	Env      *Env
	Cfg      Config
	Facets   Facet
	// AbortFacet / AbortMsg: the disagreement on a facet this property does not judge that ended the case (ErrAbort)
	AbortFacet, AbortMsg string
	Unjudged             int // disagreements on unjudged facets passed over so far in this case
	M        map[int]*MEntry
	St       RunStats

	step         int
	seq          int
	expAtomic    map[int]pend
	expAsync     map[int]pend
	seenAtomic   map[int]bool
	seenAsync    map[int]bool
	lastAsyncSeq map[int]pend
	removalSeq   int
	installed    map[int]int // val -> key
	cur          *Action
	loaderCalls  []loaderCall
	pendRefresh  []pendRefresh
	refreshChans []*refreshWait

	// stats tally
	hits, misses   uint64
	loads          uint64
	overflowEv     uint64
	expirationEv   uint64
	overflowW      uint64
	expirationW    uint64
	prevStats      [8]uint64
	modelTotalPeak uint64

	writesSinceMaint map[int]int
	consumedAtomic   map[int]bool // atomic events already applied by preReconcile (by value)
	multi            bool         // the current step may mutate the model several times (order inside the cache is unspecified)
	stepWeightBound  uint64       // upper bound of the total weight present at any moment of the step
	autoRemovedStep  map[int]bool // keys whose value was automatically removed during the current step
	unprocessedAdd   map[int]bool // val -> add task possibly unprocessed (deferred)

	// Known-finding recognisers: name -> enabled. A recognised disagreement is
	// replaced by the model's answer so that the case continues.
	KnownFindings map[string]bool
	Trace         []string
}

type loaderCall struct {
	Kind string // load, reload, bulkload, bulkreload
	Keys []int
	Olds []int
	Res  map[int]int
	Val  int
	Err  error
	Out  string
}

type pendRefresh struct {
	key    int
	oldVal int
	hasOld bool
}

type refreshWait struct {
	single <-chan otter.RefreshResult[int, int]
	bulk   <-chan []otter.RefreshResult[int, int]
	keys   []int
	done   bool
}

var errLoader = errors.New("verif: loader failed")

type wrappedNotFound struct{}

func (wrappedNotFound) Error() string { return "wrapped not found" }
func (wrappedNotFound) Unwrap() error { return otter.ErrNotFound }

// NewRunner builds the environment for a script.
func NewRunner(cfg Config, facets Facet) *Runner {
	r := &Runner{
		Cfg:       cfg,
		Facets:    facets,
		M:         map[int]*MEntry{},
		expAtomic: map[int]pend{}, expAsync: map[int]pend{},
		seenAtomic: map[int]bool{}, seenAsync: map[int]bool{}, lastAsyncSeq: map[int]pend{},
		installed:        map[int]int{},
		writesSinceMaint: map[int]int{},
		consumedAtomic:   map[int]bool{},
		unprocessedAdd:   map[int]bool{},
		KnownFindings:    map[string]bool{},
	}
	r.St.Known = map[string]int{}
	r.St.Excluded = map[string]int{}
	r.St.HooksSeen = map[string]int{}
	r.Env = BuildEnv(cfg, EnvOpts{})
	return r
}

func (r *Runner) now() int64 { return r.Env.Clock.Now() }

func (r *Runner) live(e *MEntry) bool {
	if e == nil {
		return false
	}
	if r.Cfg.Expiry == ExpNone || e.ExpInf {
		return true
	}
	return r.now() < e.Exp
}

func (r *Runner) expiredUnswept(k int) bool {
	e := r.M[k]
	return e != nil && !r.live(e)
}

func (r *Runner) fail(f Facet, format string, args ...any) error {
	msg := fmt.Sprintf(format, args...)
	if r.shapeErr != "" {
		// an ill-formed loader call precedes whatever went wrong in this step: report that (it contradicts the load and
		// refresh properties as well as the sequential model)
		msg, r.shapeErr = r.shapeErr, ""
		for _, g := range []Facet{FRefresh, FLoad, FContents, FRet} {
			if r.Facets&g != 0 {
				return &Violation{Facet: g, Step: r.step, Msg: msg}
			}
		}
	}
	if r.Facets&f != 0 {
		return &Violation{Facet: f, Step: r.step, Msg: msg}
	}
	r.AbortFacet, r.AbortMsg = facetNames[f], msg
	// A disagreement on a facet this property does not judge used to end the case; a judged disagreement that the same
	// defect causes a few steps later was then never seen (C12-O, C20-O). The first few are passed over now - the case goes
	// on with the model's view - and only a pile-up ends it. On the unchanged tree no facet ever disagrees, so nothing changes
	// there; with a changed tree every disagreement, judged or not, is a real difference from the model.
	r.Unjudged++
	if r.Unjudged <= 3 {
		return nil
	}
	return ErrAbort
}

// failFirst reports under the first enabled facet of the list (a disagreement can contradict several properties).
func (r *Runner) failFirst(fs []Facet, format string, args ...any) error {
	for _, f := range fs {
		if r.Facets&f != 0 {
			return r.fail(f, format, args...)
		}
	}
	return r.fail(fs[0], format, args...)
}

// retFacet: a wrong return value on an expired-unswept key is also a
// visibility failure.
func (r *Runner) retFacet(onExpired bool) Facet {
	if onExpired && r.Facets&FVis != 0 {
		return FVis
	}
	return FRet
}

func (r *Runner) newVal(a *Action) int {
	r.seq++
	return MkVal(r.seq, a.W, a.D)
}

// ---- deadlines ----------------------------------------------------------

func (r *Runner) expDurFor(hook string, v int, cur *MEntry) (d int64, unchanged bool) {
	c := &r.Cfg
	switch c.Expiry {
	case ExpCreating:
		if hook == "create" {
			return tab(c.ExpDur, v), false
		}
		return 0, true
	case ExpWriting:
		if hook == "read" {
			return 0, true
		}
		return tab(c.ExpDur, v), false
	case ExpAccessing:
		return tab(c.ExpDur, v), false
	case ExpCustom:
		var t []int64
		switch hook {
		case "create":
			t = c.ExpCreate
		case "update":
			t = c.ExpUpdate
		default:
			t = c.ExpRead
		}
		d := tab(t, v)
		if d == 0 {
			return 0, true
		}
		return d, false
	}
	return 0, true
}

func (r *Runner) refDurFor(hook string, v int) (d int64, unchanged bool) {
	c := &r.Cfg
	switch c.Refresh {
	case RefCreating:
		if hook == "create" {
			return tab(c.RefDur, v), false
		}
		return 0, true
	case RefWriting:
		if hook == "fail" {
			return 0, true
		}
		return tab(c.RefDur, v), false
	case RefCustom:
		var t []int64
		switch hook {
		case "create":
			t = c.RefCreate
		case "update":
			t = c.RefUpdate
		case "reload":
			t = c.RefReload
		default:
			t = c.RefFail
		}
		d := tab(t, v)
		if d == 0 {
			return 0, true
		}
		return d, false
	}
	return 0, true
}

// applyExp applies an expiry hook to entry e at the current time.
func (r *Runner) applyExp(e *MEntry, hook string) {
	if r.Cfg.Expiry == ExpNone {
		return
	}
	d, unchanged := r.expDurFor(hook, e.Val, e)
	if unchanged {
		return
	}
	r.setExp(e, d, hook == "read")
}

func (r *Runner) setExp(e *MEntry, d int64, isRead bool) {
	nd, of := SatAdd(r.now(), d)
	if isRead && !of && (e.ExpInf || nd < e.Exp) {
		e.Shortened = true
	}
	e.Exp, e.ExpInf = nd, of
	if of {
		r.St.OverflowDeadline++
	}
}

func (r *Runner) applyRef(e *MEntry, hook string) {
	if r.Cfg.Refresh == RefNone {
		return
	}
	d, unchanged := r.refDurFor(hook, e.Val)
	if unchanged {
		return
	}
	nd, of := SatAdd(r.now(), d)
	e.Ref, e.RefInf = nd, of
	if of {
		r.St.OverflowDeadline++
	}
}

// modelWrite installs value v for key k at the current time. fromReload says
// the write is the installation of a reload over an existing live mapping.
func (r *Runner) modelWrite(k, v int, fromReload bool) {
	old := r.M[k]
	oldLive := r.live(old)
	e := &MEntry{Val: v, W: r.Cfg.WeightOf(v), Exp: math.MaxInt64, Ref: math.MaxInt64, WrittenAt: r.now()}
	if oldLive {
		// the new entry inherits the deadlines, then the update hooks run
		e.Exp, e.ExpInf, e.Ref, e.RefInf = old.Exp, old.ExpInf, old.Ref, old.RefInf
		e.Shortened = old.Shortened
		r.applyExp(e, "update")
		if fromReload {
			r.applyRef(e, "reload")
		} else {
			r.applyRef(e, "update")
		}
	} else {
		e.ExpInf, e.RefInf = r.Cfg.Expiry == ExpNone, r.Cfg.Refresh == RefNone
		r.applyExp(e, "create")
		r.applyRef(e, "create")
	}
	if old != nil {
		cause := otter.CauseReplacement
		if !oldLive {
			cause = otter.CauseExpiration
		}
		r.expect(k, old.Val, cause)
		if old.W != e.W {
			r.St.WeightChanges++
		}
	}
	r.M[k] = e
	r.installed[v] = k
	r.stepWeightBound += uint64(e.W)
	r.writesSinceMaint[k]++
	if r.writesSinceMaint[k] == 2 {
		r.St.MultiWriteBefore++
	}
	if r.Cfg.Executor == ExecDeferred {
		r.unprocessedAdd[v] = true
	}
	r.noteTotal()
}

func (r *Runner) modelDelete(k int, cause otter.DeletionCause) {
	old := r.M[k]
	if old == nil {
		return
	}
	if !r.live(old) {
		cause = otter.CauseExpiration
	}
	r.expect(k, old.Val, cause)
	delete(r.M, k)
}

func (r *Runner) expect(k, v int, cause otter.DeletionCause) {
	r.removalSeq++
	p := pend{key: k, val: v, cause: cause, seq: r.removalSeq}
	if e := r.M[k]; e != nil && e.Val == v {
		p.w = e.W
		p.exp, p.writtenAt, p.sweepable = e.Exp, e.WrittenAt, r.Cfg.Expiry != ExpNone && !e.ExpInf && !e.Shortened
	}
	r.expAtomic[v] = p
	r.expAsync[v] = p
	if r.unprocessedAdd[v] {
		r.St.PendingAddGone++
	}
}

func (r *Runner) total() uint64 {
	var t uint64
	for _, e := range r.M {
		t += uint64(e.W)
	}
	return t
}

func (r *Runner) totalNotSweepable() uint64 {
	var t uint64
	now := r.now()
	for _, e := range r.M {
		if r.Cfg.Expiry != ExpNone && !e.ExpInf && !e.Shortened {
			if d, of := SatAdd(e.Exp, Tick); !of && d < now && e.WrittenAt < now-Tick {
				continue
			}
		}
		t += uint64(e.W)
	}
	return t
}

func (r *Runner) noteTotal() {
	if r.Cfg.Bound == BoundNone {
		return
	}
	t := r.total()
	if t > r.modelTotalPeak {
		r.modelTotalPeak = t
	}
	if t > r.Cfg.Maximum {
		r.St.CrossedMaximum = true
	}
}

// ---- reconciliation of events ------------------------------------------

func (r *Runner) reconcile() error {
	at, as := r.Env.TakeEvents()
	if Debug && (len(at) > 0 || len(as) > 0) {
		fmt.Printf("  step %d %s: atomic=%v async=%v\n", r.step, r.cur.Op, at, as)
	}
	for _, ev := range at {
		if r.consumedAtomic[ev.Val] {
			delete(r.consumedAtomic, ev.Val)
			continue
		}
		if r.seenAtomic[ev.Val] {
			return r.fail(FEvents, "OnAtomicDeletion delivered %v twice", ev)
		}
		r.seenAtomic[ev.Val] = true
		if p, ok := r.expAtomic[ev.Val]; ok {
			delete(r.expAtomic, ev.Val)
			if p.key != ev.Key {
				return r.fail(FEvents, "OnAtomicDeletion %v: value belongs to key %d", ev, p.key)
			}
			if p.cause != ev.Cause {
				return r.fail(FEvents, "OnAtomicDeletion %v: expected cause %s", ev, p.cause)
			}
			if ev.Cause == otter.CauseExpiration {
				// removed because it had expired (possibly by the sweep that ran first): may be counted as an eviction
				r.expirationEv++
				r.expirationW += uint64(p.w)
			}
			continue
		}
		cur := r.M[ev.Key]
		if cur != nil && cur.Val == ev.Val && (ev.Cause == otter.CauseOverflow || ev.Cause == otter.CauseExpiration) {
			if err := r.autoRemove(ev, cur); err != nil {
				return err
			}
			continue
		}
		if _, was := r.installed[ev.Val]; !was {
			return r.fail(FEvents, "OnAtomicDeletion %v: this value was never installed", ev)
		}
		if cur != nil && cur.Val == ev.Val {
			return r.failFirst([]Facet{FEvents, FContents}, "OnAtomicDeletion %v: the value was the current value of its key and no operation removed or replaced it", ev)
		}
		return r.fail(FEvents, "OnAtomicDeletion %v: unexpected (value was not current)", ev)
	}
	for _, ev := range as {
		if r.seenAsync[ev.Val] {
			return r.fail(FEvents, "OnDeletion delivered %v twice", ev)
		}
		r.seenAsync[ev.Val] = true
		p, ok := r.expAsync[ev.Val]
		if !ok {
			return r.fail(FEvents, "OnDeletion %v: not expected (value not removed, or never installed)", ev)
		}
		delete(r.expAsync, ev.Val)
		if p.key != ev.Key || p.cause != ev.Cause {
			return r.fail(FEvents, "OnDeletion %v: expected key %d cause %s", ev, p.key, p.cause)
		}
		if r.Facets&FOrder != 0 && !p.auto {
			// One goroutine is the only producer of write events: they are consumed in the order they were submitted, so the
			// values of one key that were replaced or invalidated by operations are notified in the order in which that
			// happened. (Removals decided by maintenance itself are notified from inside the processing of an event, e.g. an
			// oversized new value is evicted before the replacement of its predecessor is notified: they are not ordered here.)
			if last, ok := r.lastAsyncSeq[ev.Key]; ok && p.seq < last.seq {
				return r.fail(FOrder, "OnDeletion %v delivered after OnDeletion (%d,%d,%s), but it was removed before that value", ev, last.key, last.val, last.cause)
			}
			r.lastAsyncSeq[ev.Key] = p
		}
	}
	if len(r.expAtomic) > 0 {
		for _, p := range r.expAtomic {
			return r.failFirst([]Facet{FEvents, FContents}, "value (%d,%d) stopped being current (%s) but OnAtomicDeletion was not invoked", p.key, p.val, p.cause)
		}
	}
	if r.Cfg.Executor == ExecInline && len(r.expAsync) > 0 && r.Facets&FEvents != 0 {
		for _, p := range r.expAsync {
			return r.fail(FEvents, "value (%d,%d) was removed (%s) but OnDeletion was not delivered", p.key, p.val, p.cause)
		}
	}
	return nil
}

// autoRemove applies an automatic removal (Overflow / Expiration of the current
// value) to the model after checking that it is justified (C07).
func (r *Runner) autoRemove(ev Ev, cur *MEntry) error {
	if ev.Cause == otter.CauseExpiration {
		if r.Cfg.Expiry == ExpNone || r.live(cur) {
			return r.fail(FJustify, "Expiration reported for %v but its deadline %d has not passed (now %d)", ev, cur.Exp, r.now())
		}
		r.St.AutoExpiration++
		r.expirationEv++
		r.expirationW += uint64(cur.W)
	} else {
		if r.Cfg.Bound == BoundNone {
			return r.fail(FJustify, "Overflow reported for %v in an unbounded cache", ev)
		}
		if cur.W == 0 {
			return r.fail(FJustify, "Overflow reported for zero-weight entry %v", ev)
		}
		if r.Cfg.Executor == ExecInline {
			// Entries that expired more than one tick ago must be swept by the maintenance run before it
			// evicts anything for size (C13), so they cannot justify an Overflow.
			t := r.totalNotSweepable()
			if r.multi && r.stepWeightBound > t {
				t = r.stepWeightBound
			}
			if t <= r.Cfg.Maximum && uint64(cur.W) <= r.Cfg.Maximum {
				return r.fail(FJustify, "Overflow reported for %v while total weight %d <= maximum %d", ev, t, r.Cfg.Maximum)
			}
		}
		r.St.AutoOverflow++
		r.overflowEv++
		r.overflowW += uint64(cur.W)
	}
	delete(r.M, ev.Key)
	r.removalSeq++
	r.expAsync[ev.Val] = pend{key: ev.Key, val: ev.Val, cause: ev.Cause, seq: r.removalSeq, auto: true,
		exp: cur.Exp, writtenAt: cur.WrittenAt, sweepable: r.Cfg.Expiry != ExpNone && !cur.ExpInf && !cur.Shortened}
	if r.autoRemovedStep != nil {
		r.autoRemovedStep[ev.Key] = true
	}
	return nil
}

func (r *Runner) pendingEventFor(val int) bool {
	r.Env.evMu.Lock()
	defer r.Env.evMu.Unlock()
	for _, ev := range r.Env.EvAtomic {
		if ev.Val == val {
			return true
		}
	}
	return false
}

// preReconcile applies, before a load result is installed, the automatic
// removals already reported for the current values of the given keys: inside
// one bulk completion (or one batch of executor tasks) the cache installs keys
// in an unspecified order with maintenance in between, and an old value that
// was evicted before its key's installation makes that installation a create.
func (r *Runner) preReconcile(keys []int) error {
	r.Env.evMu.Lock()
	evs := append([]Ev(nil), r.Env.EvAtomic...)
	r.Env.evMu.Unlock()
	in := map[int]bool{}
	for _, k := range keys {
		in[k] = true
	}
	for _, ev := range evs {
		if !in[ev.Key] || r.consumedAtomic[ev.Val] || r.seenAtomic[ev.Val] {
			continue
		}
		cur := r.M[ev.Key]
		if cur == nil || cur.Val != ev.Val || (ev.Cause != otter.CauseOverflow && ev.Cause != otter.CauseExpiration) {
			continue
		}
		if _, expected := r.expAtomic[ev.Val]; expected {
			continue
		}
		r.seenAtomic[ev.Val] = true
		r.consumedAtomic[ev.Val] = true
		if err := r.autoRemove(ev, cur); err != nil {
			return err
		}
	}
	return nil
}

// ---- hooks ---------------------------------------------------------------

// takeHooks returns the calculator calls made since the last take.
func (r *Runner) takeHooks() []HookCall {
	l := r.Env.Hooks.Take()
	for _, h := range l {
		r.St.HooksSeen[h.Kind+"."+h.Name]++
	}
	return l
}

// optionalRead applies an ExpireAfterRead to e iff the log shows the cache
// consulted the calculator for a read of this value (used where the
// documentation is silent on whether the operation counts as a read).
func (r *Runner) optionalRead(e *MEntry, k int, log []HookCall) {
	if r.Cfg.Expiry == ExpNone {
		return
	}
	for _, h := range log {
		if h.Kind == "exp" && h.Key == k && h.Val == e.Val && (h.Name == "read" || h.Name == "f") {
			r.applyExp(e, "read")
			return
		}
	}
}

// checkHooks validates, for custom calculators, that the hooks consulted for a
// write are the documented ones.
func (r *Runner) checkHooks(log []HookCall, k, v int, wantExp, wantRef string) error {
	if r.Facets&FDeadline == 0 {
		return nil // not judged here; the model keeps the specified deadlines (see cmpEntry)
	}
	if r.Cfg.Expiry == ExpCustom && wantExp != "" {
		found := false
		for _, h := range log {
			if h.Kind == "exp" && h.Key == k && h.Val == v {
				if h.Name != wantExp {
					return r.fail(FDeadline, "expiry calculator: %s consulted for (%d,%d), documented hook is %s", h.Name, k, v, wantExp)
				}
				found = true
			}
		}
		if !found {
			return r.fail(FDeadline, "expiry calculator: %s not consulted for (%d,%d)", wantExp, k, v)
		}
	}
	if r.Cfg.Refresh == RefCustom && wantRef != "" {
		found := false
		for _, h := range log {
			if h.Kind == "ref" && h.Key == k && h.Val == v {
				if h.Name != wantRef {
					return r.fail(FDeadline, "refresh calculator: %s consulted for (%d,%d), documented hook is %s", h.Name, k, v, wantRef)
				}
				found = true
			}
		}
		if !found {
			return r.fail(FDeadline, "refresh calculator: %s not consulted for (%d,%d)", wantRef, k, v)
		}
	}
	return nil
}

// ---- loader ---------------------------------------------------------------

type s1Loader struct{ r *Runner }

func (l s1Loader) outcome(kind string, k int, old int, hasOld bool) (int, error) {
	r := l.r
	a := r.cur
	out := a.Out
	if out == "" {
		out = "val"
	}
	c := loaderCall{Kind: kind, Keys: []int{k}, Out: out}
	if hasOld {
		c.Olds = []int{old}
	}
	switch out {
	case "err":
		c.Val, c.Err = r.newVal(a), errLoader
	case "notfound":
		c.Val, c.Err = 0, otter.ErrNotFound
	case "wrappednotfound":
		c.Val, c.Err = r.newVal(a), wrappedNotFound{}
	case "panic":
		r.loaderCalls = append(r.loaderCalls, c)
		panic("verif: loader panic")
	default:
		c.Val = r.newVal(a)
	}
	r.loaderCalls = append(r.loaderCalls, c)
	return c.Val, c.Err
}

func (l s1Loader) Load(ctx context.Context, k int) (int, error) {
	return l.outcome("load", k, 0, false)
}

func (l s1Loader) Reload(ctx context.Context, k int, old int) (int, error) {
	return l.outcome("reload", k, old, true)
}

func (l s1Loader) bulk(kind string, keys []int, olds []int) (map[int]int, error) {
	r := l.r
	a := r.cur
	out := a.Out
	if out == "" {
		out = "full"
	}
	ks := append([]int(nil), keys...)
	c := loaderCall{Kind: kind, Keys: ks, Out: out}
	if olds != nil {
		c.Olds = append([]int(nil), olds...)
	}
	if kind == "bulkreload" && len(olds) != len(keys) {
		// "BulkReload(keys, oldValues)": one old value per key. Remember the disagreement (judged when the step is checked)
		// and pad, so that the comparison code can index safely.
		r.shapeErr = fmt.Sprintf("BulkReload was called with %d keys %v but %d old values %v", len(keys), keys, len(olds), olds)
		for len(c.Olds) < len(keys) {
			c.Olds = append(c.Olds, -1)
		}
	}
	sorted := append([]int(nil), keys...)
	sort.Ints(sorted)
	res := map[int]int{}
	req := map[int]bool{}
	for _, k := range sorted {
		req[k] = true
	}
	addExtra := func() {
		for k := 0; k < r.Cfg.Keys; k++ {
			if !req[k] && (a.Sel>>(8+k%8))&1 == 1 {
				res[k] = r.newVal(a)
			}
		}
	}
	switch out {
	case "full":
		for _, k := range sorted {
			res[k] = r.newVal(a)
		}
	case "partial":
		for _, k := range sorted {
			if (a.Sel>>(k%8))&1 == 1 {
				res[k] = r.newVal(a)
			}
		}
	case "extra":
		for _, k := range sorted {
			res[k] = r.newVal(a)
		}
		addExtra()
	case "partialextra":
		for _, k := range sorted {
			if (a.Sel>>(k%8))&1 == 1 {
				res[k] = r.newVal(a)
			}
		}
		addExtra()
	case "empty":
	case "nil":
		res = nil
	case "err":
		res = nil
		c.Err = errLoader
	case "errpartial":
		for _, k := range sorted {
			if (a.Sel>>(k%8))&1 == 1 {
				res[k] = r.newVal(a)
			}
		}
		c.Err = errLoader
	case "errnotfound":
		// a bulk loader that fails with an error wrapping ErrNotFound: for a bulk load that is a failure like any other
		// (absence is expressed per key, by leaving the key out of the map), the cache stays as it is
		for _, k := range sorted {
			if (a.Sel>>(k%8))&1 == 1 {
				res[k] = r.newVal(a)
			}
		}
		c.Err = fmt.Errorf("verif: bulk backend: %w", otter.ErrNotFound)
	case "errextra":
		// an error together with a map that also holds keys nobody asked for: a failed load leaves the cache unchanged
		for _, k := range sorted {
			if (a.Sel>>(k%8))&1 == 1 {
				res[k] = r.newVal(a)
			}
		}
		addExtra()
		c.Err = errLoader
	case "panic":
		r.loaderCalls = append(r.loaderCalls, c)
		panic("verif: bulk loader panic")
	}
	c.Res = res
	r.loaderCalls = append(r.loaderCalls, c)
	return res, c.Err
}

func (l s1Loader) BulkLoad(ctx context.Context, keys []int) (map[int]int, error) {
	return l.bulk("bulkload", keys, nil)
}

func (l s1Loader) BulkReload(ctx context.Context, keys []int, olds []int) (map[int]int, error) {
	return l.bulk("bulkreload", keys, olds)
}

func isNotFound(err error) bool { return errors.Is(err, otter.ErrNotFound) }

// applyLoadResult applies to the model the installation step of a finished
// single-key call for key k.
func (r *Runner) applyLoadResult(k int, val int, err error, notFound bool, isRefresh bool, log []HookCall) error {
	cur := r.M[k]
	switch {
	case notFound:
		if cur != nil {
			if r.autoRemovedStep[k] && !r.pendingEventFor(cur.Val) {
				// the call was dropped when the key's previous value was evicted mid-step (see below): nothing is removed
				return nil
			}
			r.modelDelete(k, otter.CauseInvalidation)
		}
	case err != nil:
		if isRefresh && cur != nil {
			// failure hook on the existing entry (live or not: the cache consults it whenever a node exists)
			if r.live(cur) {
				r.applyRef(cur, "fail")
			}
		}
	default:
		if r.autoRemovedStep[k] {
			// The key's previous value was evicted/expired while this load was registered. Whether the
			// loaded value is still installed is not fixed by any listed property (the implementation
			// drops the in-flight call on eviction): accept either outcome.
			if g, ok := r.Env.C.GetEntryQuietly(k); (!ok || g.Value != val) && !r.pendingEventFor(val) {
				return nil
			}
		}
		fromReload := isRefresh && r.live(cur)
		wantExp, wantRef := "create", "create"
		if r.live(cur) {
			wantExp, wantRef = "update", "update"
			if fromReload {
				wantRef = "reload"
			}
		}
		r.modelWrite(k, val, fromReload)
		if e := r.checkHooks(log, k, val, wantExp, wantRef); e != nil {
			return e
		}
	}
	return nil
}

// ---- the interpreter ------------------------------------------------------

func causeName(c otter.DeletionCause) string { return c.String() }

// Step executes one action.
func (r *Runner) Step(i int, a *Action) (err error) {
	r.step = i
	r.cur = a
	r.loaderCalls = r.loaderCalls[:0]
	r.multi = a.Op == "burst" || a.Op == "bulkget" || a.Op == "bulkrefresh" || a.Op == "runtasks" || a.Op == "quiesce" || a.Op == "invalidateall"
	r.stepWeightBound = r.total()
	r.autoRemovedStep = map[int]bool{}
	r.St.Ops++
	r.St.Kinds = append(r.St.Kinds, a.Op)
	if Debug {
		fmt.Printf("step %d %+v now=%d model=%s\n", i, *a, r.now(), r.dumpModel())
	}
	c := r.Env.C
	k := 0
	if r.Cfg.Keys > 0 {
		k = ((a.K % r.Cfg.Keys) + r.Cfg.Keys) % r.Cfg.Keys
	}
	e := r.M[k]
	live := r.live(e)
	onExp := e != nil && !live
	keyed := map[string]bool{"set": true, "setifabsent": true, "getifpresent": true, "getentry": true, "getentryquietly": true,
		"compute": true, "computeifabsent": true, "computeifpresent": true, "invalidate": true, "setexpiresafter": true,
		"setrefreshableafter": true, "get": true, "refresh": true}
	if keyed[a.Op] && onExp {
		r.St.OpsOnExpired++
		switch a.Op {
		case "getifpresent", "getentry", "getentryquietly":
		default:
			r.St.WritesOnExpired++
		}
	}
	rf := r.retFacet(onExp)

	// run the operation, converting an escaping panic into a value
	var pv any
	call := func(f func()) {
		defer func() { pv = recover() }()
		f()
	}
	unexpectedPanic := func() error {
		if pv != nil {
			return r.fail(FPanic, "%s: unexpected panic: %v", a.Op, firstLine(fmt.Sprint(pv)))
		}
		return nil
	}

	switch a.Op {
	case "set", "setifabsent":
		v := r.newVal(a)
		var gv int
		var gok bool
		call(func() {
			if a.Op == "set" {
				gv, gok = c.Set(k, v)
			} else {
				gv, gok = c.SetIfAbsent(k, v)
			}
		})
		if err = unexpectedPanic(); err != nil {
			return err
		}
		log := r.takeHooks()
		if a.Op == "setifabsent" && live {
			if gok || gv != e.Val {
				return r.fail(rf, "SetIfAbsent(%d) on live value %d returned (%d,%v)", k, e.Val, gv, gok)
			}
			r.optionalRead(e, k, log)
			break
		}
		wv, wok := v, true
		if live {
			wv, wok = e.Val, false
		}
		if gv != wv || gok != wok {
			if onExp && r.known("D1-set-on-expired-returns-old", gv == e.Val && !gok) {
				// recognised
			} else {
				return r.fail(rf, "%s(%d,%d) returned (%d,%v), model says (%d,%v) [entry %s]", a.Op, k, v, gv, gok, wv, wok, r.descr(e))
			}
		}
		r.modelWrite(k, v, false)
		we, wr := "create", "create"
		if live {
			we, wr = "update", "update"
		}
		if err = r.checkHooks(log, k, v, we, wr); err != nil {
			return err
		}

	case "getifpresent":
		var gv int
		var gok bool
		call(func() { gv, gok = c.GetIfPresent(k) })
		if err = unexpectedPanic(); err != nil {
			return err
		}
		r.takeHooks()
		if live {
			r.hits++
			if !gok || gv != e.Val {
				return r.fail(rf, "GetIfPresent(%d) returned (%d,%v), model holds live %s", k, gv, gok, r.descr(e))
			}
			r.applyExp(e, "read")
		} else {
			r.misses++
			if gok {
				return r.fail(rf, "GetIfPresent(%d) returned (%d,true), model says absent [entry %s]", k, gv, r.descr(e))
			}
		}

	case "getentry", "getentryquietly":
		var ge otter.Entry[int, int]
		var gok bool
		call(func() {
			if a.Op == "getentry" {
				ge, gok = c.GetEntry(k)
			} else {
				ge, gok = c.GetEntryQuietly(k)
			}
		})
		if err = unexpectedPanic(); err != nil {
			return err
		}
		log := r.takeHooks()
		if a.Op == "getentryquietly" && len(log) > 0 && r.Facets&FDeadline != 0 {
			return r.fail(FDeadline, "GetEntryQuietly consulted a calculator: %+v", log[0])
		}
		if a.Op == "getentry" {
			if live {
				r.hits++
			} else {
				r.misses++
			}
		}
		if !live {
			if gok {
				return r.fail(rf, "%s(%d) returned an entry (value %d), model says absent [entry %s]", a.Op, k, ge.Value, r.descr(e))
			}
			break
		}
		if !gok {
			return r.fail(rf, "%s(%d) returned absent, model holds live %s", a.Op, k, r.descr(e))
		}
		if a.Op == "getentry" {
			r.applyExp(e, "read")
		}
		if err = r.cmpEntry(a.Op, k, e, ge); err != nil {
			return err
		}

	case "compute", "computeifabsent", "computeifpresent":
		v := r.newVal(a)
		calls := 0
		var sawOld int
		var sawFound bool
		var gv int
		var gok bool
		cop := a.Cop
		if cop == "" {
			cop = "write"
		}
		toOp := func() (int, otter.ComputeOp) {
			switch cop {
			case "cancel":
				return v, otter.CancelOp
			case "invalidate":
				return v, otter.InvalidateOp
			case "panic":
				panic("verif: compute panic")
			case "invalid":
				return v, otter.ComputeOp(7)
			}
			return v, otter.WriteOp
		}
		call(func() {
			switch a.Op {
			case "compute":
				gv, gok = c.Compute(k, func(old int, found bool) (int, otter.ComputeOp) {
					calls++
					sawOld, sawFound = old, found
					return toOp()
				})
			case "computeifabsent":
				gv, gok = c.ComputeIfAbsent(k, func() (int, bool) {
					calls++
					if cop == "panic" {
						panic("verif: compute panic")
					}
					return v, cop == "cancel"
				})
			case "computeifpresent":
				gv, gok = c.ComputeIfPresent(k, func(old int) (int, otter.ComputeOp) {
					calls++
					sawOld, sawFound = old, true
					return toOp()
				})
			}
		})
		log := r.takeHooks()
		// stats
		if live {
			r.hits++
		} else {
			r.misses++
		}
		wantCalls := 1
		if (a.Op == "computeifabsent" && live) || (a.Op == "computeifpresent" && !live) {
			wantCalls = 0
		}
		if calls != wantCalls {
			return r.fail(rf, "%s(%d): callback ran %d times, want %d [entry %s]", a.Op, k, calls, wantCalls, r.descr(e))
		}
		if calls == 1 && a.Op != "computeifabsent" {
			wOld, wFound := 0, false
			if live {
				wOld, wFound = e.Val, true
			}
			if sawOld != wOld || sawFound != wFound {
				return r.fail(rf, "%s(%d): callback saw (%d,%v), model says (%d,%v) [entry %s]", a.Op, k, sawOld, sawFound, wOld, wFound, r.descr(e))
			}
		}
		effective := cop
		if a.Op == "computeifabsent" {
			if cop != "cancel" && cop != "panic" {
				effective = "write"
			}
			if cop == "invalidate" || cop == "invalid" {
				effective = "write"
			}
		}
		if wantCalls == 0 {
			effective = "none"
		}
		if effective == "panic" || effective == "invalid" {
			if pv == nil {
				return r.fail(FRet, "%s(%d) with %s callback did not panic", a.Op, k, effective)
			}
			// state unchanged; reads before the computation may have touched the deadline
			if live {
				r.optionalRead(e, k, log)
			}
			// whether an operation that panics counts its lookup is not specified: follow the cache
			if live {
				r.hits--
			} else {
				r.misses--
			}
			if r.Cfg.Stats {
				s := r.Env.StatsSnapshot()
				if live && s.Hits == r.hits+1 {
					r.hits++
				} else if !live && s.Misses == r.misses+1 {
					r.misses++
				}
			}
			break
		}
		if err = unexpectedPanic(); err != nil {
			return err
		}
		switch effective {
		case "none", "cancel":
			if live {
				if !gok || gv != e.Val {
					return r.fail(rf, "%s(%d) returned (%d,%v), model holds live %s", a.Op, k, gv, gok, r.descr(e))
				}
				r.optionalRead(e, k, log)
			} else if gok || gv != 0 {
				return r.fail(rf, "%s(%d) returned (%d,%v), model says absent [entry %s]", a.Op, k, gv, gok, r.descr(e))
			}
		case "write":
			if !gok || gv != v {
				return r.fail(rf, "%s(%d) wrote %d but returned (%d,%v)", a.Op, k, v, gv, gok)
			}
			if live {
				r.optionalRead(e, k, log)
			}
			r.modelWrite(k, v, false)
			we, wr := "create", "create"
			if live {
				we, wr = "update", "update"
			}
			if err = r.checkHooks(log, k, v, we, wr); err != nil {
				return err
			}
		case "invalidate":
			if gok || gv != 0 {
				return r.fail(rf, "%s(%d) invalidated but returned (%d,%v)", a.Op, k, gv, gok)
			}
			r.modelDelete(k, otter.CauseInvalidation)
		}

	case "invalidate":
		var gv int
		var gok bool
		call(func() { gv, gok = c.Invalidate(k) })
		if err = unexpectedPanic(); err != nil {
			return err
		}
		r.takeHooks()
		wv, wok := 0, false
		if live {
			wv, wok = e.Val, true
		}
		if gv != wv || gok != wok {
			if onExp && r.known("D2-invalidate-on-expired-returns-old", gv == e.Val && gok) {
			} else {
				return r.fail(rf, "Invalidate(%d) returned (%d,%v), model says (%d,%v) [entry %s]", k, gv, gok, wv, wok, r.descr(e))
			}
		}
		r.modelDelete(k, otter.CauseInvalidation)

	case "invalidateall":
		call(func() { c.InvalidateAll() })
		if err = unexpectedPanic(); err != nil {
			return err
		}
		r.takeHooks()
		// InvalidateAll first replays the pending write events (which may evict), then removes what is left
		if err = r.preReconcile(r.sortedKeys()); err != nil {
			return err
		}
		for _, kk := range r.sortedKeys() {
			r.modelDelete(kk, otter.CauseInvalidation)
		}

	case "setexpiresafter":
		d := r.resolveDur(a.Dur)
		call(func() { c.SetExpiresAfter(k, timeDur(d)) })
		if err = unexpectedPanic(); err != nil {
			return err
		}
		r.takeHooks()
		if r.Cfg.Expiry != ExpNone && d > 0 && live {
			r.setExp(e, d, true)
		}

	case "setrefreshableafter":
		d := r.resolveDur(a.Dur)
		call(func() { c.SetRefreshableAfter(k, timeDur(d)) })
		if err = unexpectedPanic(); err != nil {
			return err
		}
		r.takeHooks()
		if r.Cfg.Refresh != RefNone && d > 0 && live {
			nd, of := SatAdd(r.now(), d)
			e.Ref, e.RefInf = nd, of
			if of {
				r.St.OverflowDeadline++
			}
		}

	case "get":
		err = r.doGet(a, k, e, live, rf, &pv, call)
		if err != nil {
			return err
		}

	case "bulkget":
		err = r.doBulkGet(a, &pv, call)
		if err != nil {
			return err
		}

	case "refresh":
		err = r.doRefresh(a, k, e, live, &pv, call)
		if err != nil {
			return err
		}

	case "bulkrefresh":
		err = r.doBulkRefresh(a, &pv, call)
		if err != nil {
			return err
		}

	case "iter":
		err = r.doIter(a, &pv, call)
		if err != nil {
			return err
		}

	case "setmaximum":
		if r.Cfg.Bound != BoundNone {
			if uint64(a.N) < r.Cfg.Maximum {
				r.St.LoweredMaximum++
			}
			r.Cfg.Maximum = uint64(a.N)
			r.Env.Cfg.Maximum = uint64(a.N)
		}
		call(func() { c.SetMaximum(uint64(a.N)) })
		if err = unexpectedPanic(); err != nil {
			return err
		}
		r.noteTotal()
		r.maintRan()

	case "getmaximum":
		var g uint64
		call(func() { g = c.GetMaximum() })
		if err = unexpectedPanic(); err != nil {
			return err
		}
		want := uint64(math.MaxUint64)
		if r.Cfg.Bound != BoundNone {
			want = r.Cfg.Maximum
		}
		if g != want {
			return r.fail(FRet, "GetMaximum() = %d, want %d", g, want)
		}

	case "cleanup":
		call(func() { c.CleanUp() })
		if err = unexpectedPanic(); err != nil {
			return err
		}
		r.maintRan()
		if err = r.reconcile(); err != nil {
			return err
		}
		if err = r.sweepCheck(); err != nil {
			return err
		}

	case "advance":
		d := a.Dur
		if d < 0 {
			d = 0
		}
		if nv, of := SatAdd(r.now(), d); of || nv > math.MaxInt64-(1<<50) {
			d = 0 // keep the clock away from the end of time
		}
		if d > 64*Tick {
			r.St.BigJumps++
		}
		r.Env.Clock.Advance(d)

	case "advanceto":
		// advance to the nearest future deadline (+N: -1, 0, +1)
		best := int64(math.MaxInt64)
		for _, me := range r.M {
			if r.Cfg.Expiry != ExpNone && !me.ExpInf && me.Exp > r.now() && me.Exp < best {
				best = me.Exp
			}
			if r.Cfg.Refresh != RefNone && !me.RefInf && me.Ref > r.now() && me.Ref < best {
				best = me.Ref
			}
		}
		if best != math.MaxInt64 && best < math.MaxInt64-(1<<50) {
			t := best + int64(a.N)
			if t > r.now() {
				r.Env.Clock.Set(t)
				r.St.BoundaryProbes++
			}
		}

	case "runtasks":
		n := a.N
		if n <= 0 {
			n = 1
		}
		call(func() {
			for j := 0; j < n; j++ {
				if !r.Env.Exec.RunOne() {
					break
				}
			}
		})
		if err = unexpectedPanic(); err != nil {
			return err
		}
		if err = r.applyDeferredLoads(); err != nil {
			return err
		}

	case "burst":
		// many writes without giving the executor a chance: fills the write buffer (caller-runs fallback)
		n := a.N
		if n <= 0 {
			n = 2200
		}
		span := 40 + a.Sel%60
		if a.Sel%3 == 0 {
			span = 100000 // every write creates a new key: an event dropped on the full buffer is an add
		}
		var berr error
		call(func() {
			for j := 0; j < n; j++ {
				kk := 100 + j%span
				v := r.newVal(a)
				c.Set(kk, v)
				r.modelWrite(kk, v, false)
				// the caller-runs fallback may evict in the middle of the burst: reconcile write by write
				if berr = r.reconcile(); berr != nil {
					return
				}
			}
		})
		if err = unexpectedPanic(); err != nil {
			return err
		}
		if berr != nil {
			return berr
		}
		r.takeHooks()
		r.St.Bursts++

	case "readburst":
		// far more reads than the lossy read buffer holds between two drains: dropped reads must not change results
		n := a.N
		if n <= 0 {
			n = 40
		}
		for j := 0; j < n; j++ {
			kk := (k + j*(1+a.Sel%5)) % r.Cfg.Keys
			if a.Sel >= 5 {
				// pattern burst: every read but the last goes to one key, the last one (the read that finds the 16-slot buffer
				// full when n is a multiple of 17: its event is dropped, its deadline extension is not) to another key
				kk = k % r.Cfg.Keys
				if j == n-1 {
					kk = (k + 1 + a.Sel) % r.Cfg.Keys
				}
			}
			me := r.M[kk]
			ml := r.live(me)
			gv, gok := c.GetIfPresent(kk)
			if ml {
				r.hits++
				if !gok || gv != me.Val {
					return r.fail(FRet, "read %d of a burst: GetIfPresent(%d) returned (%d,%v), model holds live %s", j, kk, gv, gok, r.descr(me))
				}
				r.applyExp(me, "read")
			} else {
				r.misses++
				if gok {
					return r.fail(r.retFacet(me != nil), "read %d of a burst: GetIfPresent(%d) returned (%d,true), model says absent [entry %s]", j, kk, gv, r.descr(me))
				}
			}
		}
		r.takeHooks()
		if l := c.VerifReadBufferLen(); l > 16*64 {
			return r.fail(FBook, "read buffer holds %d entries", l)
		}
		if l := c.VerifReadBufferLen(); l >= 16 {
			r.St.ReadBufferSaturated++
		}
		r.St.ReadBursts++

	case "quiesce":
		if err = r.Quiesce(); err != nil {
			return err
		}

	case "saveload":
		if err = r.doSaveLoad(a); err != nil {
			return err
		}

	default:
		return fmt.Errorf("unknown op %q", a.Op)
	}

	if r.shapeErr != "" {
		return r.failFirst([]Facet{FRefresh, FLoad, FContents, FRet}, "%s", r.shapeErr)
	}
	if err = r.reconcile(); err != nil {
		return err
	}
	if err = r.drainRefreshChans(false); err != nil {
		return err
	}
	return r.afterStep()
}

func firstLine(s string) string {
	if i := strings.IndexByte(s, '\n'); i >= 0 {
		return s[:i]
	}
	return s
}

func (r *Runner) maintRan() {
	for k := range r.writesSinceMaint {
		delete(r.writesSinceMaint, k)
	}
	for v := range r.unprocessedAdd {
		delete(r.unprocessedAdd, v)
	}
}

func (r *Runner) sortedKeys() []int {
	ks := make([]int, 0, len(r.M))
	for k := range r.M {
		ks = append(ks, k)
	}
	sort.Ints(ks)
	return ks
}

func (r *Runner) dumpModel() string {
	var b strings.Builder
	for _, k := range r.sortedKeys() {
		fmt.Fprintf(&b, "%d:%s ", k, r.descr(r.M[k]))
	}
	return b.String()
}

func (r *Runner) descr(e *MEntry) string {
	if e == nil {
		return "<none>"
	}
	st := "live"
	if !r.live(e) {
		st = "expired-unswept"
	}
	return fmt.Sprintf("{val %d w %d exp %d ref %d %s now %d}", e.Val, e.W, e.Exp, e.Ref, st, r.now())
}

// known reports whether a disagreement matches an enabled known-finding
// recogniser; if so it is counted and the case continues with the model's view.
func (r *Runner) known(name string, matches bool) bool {
	if !matches || !r.KnownFindings[name] {
		return false
	}
	r.St.Known[name]++
	return true
}

func (r *Runner) resolveDur(d int64) int64 {
	// negative specials: -1 => MaxInt64-now, -2 => MaxInt64-now-1, -3 => MaxInt64-now+1, -4 => MaxInt64
	switch d {
	case -1:
		return math.MaxInt64 - r.now()
	case -2:
		return math.MaxInt64 - r.now() - 1
	case -3:
		if r.now() > 1 {
			return math.MaxInt64 - r.now() + 1
		}
		return math.MaxInt64
	case -4:
		return math.MaxInt64
	}
	return d
}

func (r *Runner) cmpEntry(op string, k int, e *MEntry, g otter.Entry[int, int]) error {
	if g.Key != k || g.Value != e.Val {
		return r.fail(FRet, "%s(%d): entry {key %d value %d}, model value %d", op, k, g.Key, g.Value, e.Val)
	}
	if g.Weight != e.W {
		return r.fail(FRet, "%s(%d): entry weight %d, model %d", op, k, g.Weight, e.W)
	}
	snap := int64(0)
	if r.Cfg.WithTime() {
		snap = r.now()
	}
	if g.SnapshotAtNano != snap {
		return r.fail(FRet, "%s(%d): SnapshotAtNano %d, want %d", op, k, g.SnapshotAtNano, snap)
	}
	// derived accessors of the returned snapshot (they are what calculators and callers read)
	if g.HasExpired() {
		return r.fail(FRet, "%s(%d): the returned entry reports HasExpired() (ExpiresAtNano %d, SnapshotAtNano %d)", op, k, g.ExpiresAtNano, g.SnapshotAtNano)
	}
	if g.ExpiresAt().UnixNano() != g.ExpiresAtNano || g.RefreshableAt().UnixNano() != g.RefreshableAtNano || g.SnapshotAt().UnixNano() != g.SnapshotAtNano {
		return r.failFirst([]Facet{FRet, FDeadline}, "%s(%d): ExpiresAt/RefreshableAt/SnapshotAt disagree with the nanosecond fields of %+v", op, k, g)
	}
	if int64(g.ExpiresAfter()) != g.ExpiresAtNano-g.SnapshotAtNano || int64(g.RefreshableAfter()) != g.RefreshableAtNano-g.SnapshotAtNano {
		return r.failFirst([]Facet{FRet, FDeadline}, "%s(%d): ExpiresAfter/RefreshableAfter are not the distance from the snapshot time in %+v", op, k, g)
	}
	if r.Facets&FDeadline == 0 {
		// The property under judgement does not judge the deadlines themselves. The model keeps the deadlines the
		// specification prescribes, so that what follows from a wrong deadline in the cache (an entry visible for too
		// long, an early Expiration) is still judged - against the specification, not against the cache's own clockwork.
		return nil
	}
	if r.Cfg.Expiry == ExpNone {
		if g.ExpiresAtNano != math.MaxInt64 {
			return r.fail(FDeadline, "%s(%d): ExpiresAtNano %d without expiration policy", op, k, g.ExpiresAtNano)
		}
	} else if e.ExpInf {
		if g.ExpiresAtNano <= r.now() {
			return r.fail(FDeadline, "%s(%d): 'never' deadline wrapped to %d (now %d)", op, k, g.ExpiresAtNano, r.now())
		}
	} else if g.ExpiresAtNano != e.Exp {
		return r.fail(FDeadline, "%s(%d): ExpiresAtNano %d, model %d (now %d, value %d)", op, k, g.ExpiresAtNano, e.Exp, r.now(), e.Val)
	}
	if r.Cfg.Refresh == RefNone {
		if g.RefreshableAtNano != math.MaxInt64 {
			return r.fail(FDeadline, "%s(%d): RefreshableAtNano %d without refresh policy", op, k, g.RefreshableAtNano)
		}
	} else if e.RefInf {
		if g.RefreshableAtNano <= r.now() {
			return r.fail(FDeadline, "%s(%d): 'never' refresh time wrapped to %d (now %d)", op, k, g.RefreshableAtNano, r.now())
		}
	} else if g.RefreshableAtNano != e.Ref {
		return r.fail(FDeadline, "%s(%d): RefreshableAtNano %d, model %d (now %d, value %d)", op, k, g.RefreshableAtNano, e.Ref, r.now(), e.Val)
	}
	return nil
}

// afterStep compares the whole key space with the model.
func (r *Runner) afterStep() error {
	c := r.Env.C
	for k := 0; k < r.Cfg.Keys; k++ {
		e := r.M[k]
		live := r.live(e)
		g, ok := c.GetEntryQuietly(k)
		if ok != live {
			f := FContents
			if e != nil && !live && r.Facets&FVis != 0 {
				f = FVis
			}
			if ok {
				return r.fail(f, "after %s: key %d is visible with value %d, model says absent [entry %s]", r.cur.Op, k, g.Value, r.descr(e))
			}
			return r.fail(f, "after %s: key %d is missing, model holds live %s and no eviction was reported", r.cur.Op, k, r.descr(e))
		}
		if live {
			if g.Value != e.Val || g.Weight != e.W {
				return r.fail(FContents, "after %s: key %d holds (value %d, weight %d), model (value %d, weight %d)", r.cur.Op, k, g.Value, g.Weight, e.Val, e.W)
			}
			if err := r.cmpEntry("GetEntryQuietly after "+r.cur.Op, k, e, g); err != nil {
				return err
			}
		}
	}
	if hl := r.Env.Hooks.Take(); len(hl) > 0 {
		return r.fail(FDeadline, "GetEntryQuietly consulted a calculator: %+v", hl[0])
	}
	if sz := c.EstimatedSize(); sz != len(r.M) {
		return r.fail(FContents, "after %s: EstimatedSize()=%d but %d entries were written and not reported removed", r.cur.Op, sz, len(r.M))
	}
	if err := r.reconcile(); err != nil {
		return err
	}
	return r.statsCheck()
}

// sweepCheck implements C13 at a CleanUp.
func (r *Runner) sweepCheck() error {
	if r.Cfg.Expiry == ExpNone {
		return nil
	}
	r.St.SweepChecks++
	t := r.now()
	for _, k := range r.sortedKeys() {
		e := r.M[k]
		if e.ExpInf || e.Shortened {
			continue
		}
		if d, of := SatAdd(e.Exp, Tick); !of && d < t && e.WrittenAt < t-Tick {
			return r.fail(FSweep, "CleanUp at %d: key %d (value %d) expired at %d (more than one tick ago, written at %d) but was not swept/reported", t, k, e.Val, e.Exp, e.WrittenAt)
		}
	}
	// "... and its Expiration event has been delivered": with a same-goroutine executor nothing is queued, so an entry that
	// was physically removed because it had expired (by the sweep or by an operation that found it expired) and whose
	// obligation is due must have reached OnDeletion by now
	if r.Cfg.Executor == ExecInline {
		for _, p := range r.expAsync {
			if p.cause != otter.CauseExpiration || !p.sweepable {
				continue
			}
			if d, of := SatAdd(p.exp, Tick); !of && d < t && p.writtenAt < t-Tick {
				return r.fail(FSweep, "CleanUp at %d: value (%d,%d) expired at %d (more than one tick ago) and is gone from the table, but its Expiration event was never delivered to OnDeletion", t, p.key, p.val, p.exp)
			}
		}
	}
	return nil
}

func (r *Runner) statsCheck() error {
	if !r.Cfg.Stats {
		return nil
	}
	r.St.StatsChecks++
	s := r.Env.StatsSnapshot()
	cur := [8]uint64{s.Hits, s.Misses, s.Evictions, s.EvictionWeight, s.LoadSuccesses, s.LoadFailures}
	for i := range cur {
		if cur[i] < r.prevStats[i] {
			return r.fail(FStats, "stats counter %d decreased: %d -> %d", i, r.prevStats[i], cur[i])
		}
	}
	r.prevStats = cur
	if s.Hits != r.hits || s.Misses != r.misses {
		return r.fail(FStats, "after %s: stats hits=%d misses=%d, harness tally hits=%d misses=%d", r.cur.Op, s.Hits, s.Misses, r.hits, r.misses)
	}
	if s.LoadSuccesses+s.LoadFailures != r.loads {
		return r.fail(FStats, "after %s: stats loads=%d+%d, loader invocations=%d", r.cur.Op, s.LoadSuccesses, s.LoadFailures, r.loads)
	}
	if s.Evictions < r.overflowEv || s.Evictions > r.overflowEv+r.expirationEv {
		return r.fail(FStats, "after %s: stats evictions=%d, overflow events=%d, expiration events=%d", r.cur.Op, s.Evictions, r.overflowEv, r.expirationEv)
	}
	if s.EvictionWeight < r.overflowW || s.EvictionWeight > r.overflowW+r.expirationW {
		return r.fail(FStats, "after %s: stats eviction weight=%d, overflow weight=%d, expiration weight=%d", r.cur.Op, s.EvictionWeight, r.overflowW, r.expirationW)
	}
	return nil
}

// statsLoadsOnly is the model-independent part of statsCheck: monotone counters, and load successes plus failures equal
// to the number of loader invocations the harness's loaders counted.
func (r *Runner) statsLoadsOnly() error {
	if !r.Cfg.Stats {
		return nil
	}
	s := r.Env.StatsSnapshot()
	cur := [8]uint64{s.Hits, s.Misses, s.Evictions, s.EvictionWeight, s.LoadSuccesses, s.LoadFailures}
	for i := range cur {
		if cur[i] < r.prevStats[i] {
			return r.fail(FStats, "stats counter %d decreased: %d -> %d", i, r.prevStats[i], cur[i])
		}
	}
	if s.LoadSuccesses+s.LoadFailures != r.loads {
		return r.fail(FStats, "after %s: stats loads=%d+%d, loader invocations=%d", r.cur.Op, s.LoadSuccesses, s.LoadFailures, r.loads)
	}
	return nil
}

// Quiesce runs all deferred tasks and maintenance, then checks the
// quiescence-only facets (C04, C05, C06 completeness).
func (r *Runner) Quiesce() error {
	var pv any
	func() {
		defer func() { pv = recover() }()
		for round := 0; round < 4; round++ {
			for r.Env.Exec.RunOne() {
			}
			r.Env.C.CleanUp()
		}
		for r.Env.Exec.RunOne() {
		}
	}()
	if pv != nil {
		return r.fail(FPanic, "quiesce: unexpected panic: %v", firstLine(fmt.Sprint(pv)))
	}
	r.maintRan()
	if err := r.applyDeferredLoads(); err != nil {
		return err
	}
	if err := r.reconcile(); err != nil {
		return err
	}
	if err := r.drainRefreshChans(true); err != nil {
		return err
	}
	if len(r.expAsync) > 0 {
		for _, p := range r.expAsync {
			return r.fail(FEvents, "at quiescence: value (%d,%d) was removed (%s) but OnDeletion was never delivered", p.key, p.val, p.cause)
		}
	}
	r.St.QuiesceChecks++
	return r.quiescentChecks()
}

func (r *Runner) quiescentChecks() error {
	c := r.Env.C
	// C04: bound
	if r.Cfg.Bound != BoundNone {
		var sum uint64
		n := 0
		for en := range c.Coldest() {
			sum += uint64(en.Weight)
			n++
			if uint64(en.Weight) > r.Cfg.Maximum {
				return r.fail(FBound, "at quiescence: entry (%d,%d) of weight %d is heavier than the maximum %d", en.Key, en.Value, en.Weight, r.Cfg.Maximum)
			}
		}
		var sumAll uint64
		for k := range c.All() {
			if g, ok := c.GetEntryQuietly(k); ok {
				sumAll += uint64(g.Weight)
				if uint64(g.Weight) > r.Cfg.Maximum {
					return r.fail(FBound, "at quiescence: entry (%d,%d) of weight %d is heavier than the maximum %d", g.Key, g.Value, g.Weight, r.Cfg.Maximum)
				}
			}
		}
		max := c.GetMaximum()
		if max != r.Cfg.Maximum {
			return r.fail(FRet, "GetMaximum()=%d want %d", max, r.Cfg.Maximum)
		}
		if sumAll > max {
			return r.fail(FBound, "at quiescence: entries present weigh %d in total, maximum is %d", sumAll, max)
		}
		if sum > max {
			return r.fail(FBound, "at quiescence: Coldest() weighs %d in total, maximum is %d", sum, max)
		}
		if r.Cfg.Bound == BoundWeight {
			if ws := c.WeightedSize(); ws > max {
				return r.fail(FBound, "at quiescence: WeightedSize()=%d, maximum is %d", ws, max)
			}
		}
	}
	// C05: views agree
	type kv struct{ k, v int }
	var all []kv
	var sumAll uint64
	for k, v := range c.All() {
		all = append(all, kv{k, v})
		if g, ok := c.GetEntryQuietly(k); ok {
			sumAll += uint64(g.Weight)
		}
	}
	sort.Slice(all, func(i, j int) bool { return all[i].k < all[j].k })
	for i := 1; i < len(all); i++ {
		if all[i].k == all[i-1].k {
			return r.fail(FBook, "at quiescence: All() yields key %d twice", all[i].k)
		}
	}
	liveN := 0
	for _, e := range r.M {
		if r.live(e) {
			liveN++
		}
	}
	if len(all) != liveN {
		return r.fail(FContents, "at quiescence: All() yields %d entries, model has %d live", len(all), liveN)
	}
	if r.Cfg.Bound == BoundWeight {
		// WeightedSize counts every entry in the table (expired-unswept included)
		if ws, mt := c.WeightedSize(), r.total(); ws != mt {
			return r.fail(FBook, "at quiescence: WeightedSize()=%d but the entries in the table weigh %d (live ones %d)", ws, mt, sumAll)
		}
	}
	if r.Cfg.Bound != BoundNone {
		for _, dir := range []string{"coldest", "hottest"} {
			var ord []kv
			seq := c.Coldest()
			if dir == "hottest" {
				seq = c.Hottest()
			}
			for en := range seq {
				ord = append(ord, kv{en.Key, en.Value})
			}
			sort.Slice(ord, func(i, j int) bool { return ord[i].k < ord[j].k })
			if len(ord) != len(all) {
				return r.fail(FBook, "at quiescence: %s yields %d entries %v, All() yields %d %v", dir, len(ord), ord, len(all), all)
			}
			for i := range ord {
				if ord[i] != all[i] {
					return r.fail(FBook, "at quiescence: %s yields %v, All() yields %v", dir, ord, all)
				}
			}
		}
	}
	if es := c.EstimatedSize(); es != len(r.M) {
		return r.fail(FBook, "at quiescence: EstimatedSize()=%d, entries in the table per model %d", es, len(r.M))
	}
	rep := c.VerifAudit()
	if len(rep.Problems) > 0 {
		return r.fail(FBook, "at quiescence: audit: %s", strings.Join(rep.Problems, "; "))
	}
	if ws := c.VerifWriteBufferSize(); ws != 0 {
		return r.fail(FBook, "at quiescence: write buffer still holds %d events", ws)
	}
	return nil
}

// RunScript runs a whole script; the returned error is a *Violation, ErrAbort,
// or nil.
func RunScript(s *Script, facets Facet, known map[string]bool, finalQuiesce bool) (*Runner, error) {
	r := NewRunner(s.Cfg, facets)
	defer r.Env.Close()
	for n := range known {
		r.KnownFindings[n] = true
	}
	for i := range s.Actions {
		if err := r.Step(i, &s.Actions[i]); err != nil {
			if errors.Is(err, ErrAbort) && r.Facets&FStats != 0 {
				// the step ended on a disagreement this property does not judge (a wrong return value, say); the part of
				// the statistics oracle that does not depend on the model is judged all the same
				if e2 := r.statsLoadsOnly(); e2 != nil {
					return r, e2
				}
			}
			return r, err
		}
	}
	if finalQuiesce {
		r.step = len(s.Actions)
		r.cur = &Action{Op: "quiesce"}
		if err := r.Quiesce(); err != nil {
			return r, err
		}
	}
	return r, nil
}
