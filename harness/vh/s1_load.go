package vh

import (
	"bytes"
	"context"
	"fmt"
	"iter"
	"math"
	"os"
	"path/filepath"
	"sort"
	"time"

	"github.com/maypok86/otter/v2"
)

func timeDur(d int64) time.Duration { return time.Duration(d) }

func (r *Runner) stale(e *MEntry) bool {
	return r.Cfg.Refresh != RefNone && !e.RefInf && e.Ref <= r.now()
}

func sameSet(a, b []int) bool {
	if len(a) != len(b) {
		return false
	}
	x := append([]int(nil), a...)
	y := append([]int(nil), b...)
	sort.Ints(x)
	sort.Ints(y)
	for i := range x {
		if x[i] != y[i] {
			return false
		}
	}
	return true
}

// noReloadPanic replaces a panic outcome where the loader would run on the
// executor (a panicking reload is outside every listed property and, with a
// goroutine executor, would crash the process).
func (r *Runner) noReloadPanic(a *Action) *Action {
	if a.Out == "panic" {
		b := *a
		b.Out = "err"
		return &b
	}
	return a
}

func (r *Runner) doGet(a *Action, k int, e *MEntry, live bool, rf Facet, pv *any, call func(func())) error {
	c := r.Env.C
	isStale := live && r.stale(e)
	if isStale {
		r.cur = r.noReloadPanic(a)
	}
	var gv int
	var gerr error
	call(func() { gv, gerr = c.Get(ctxFor(a), k, s1Loader{r}) })
	log := r.takeHooks()
	calls := append([]loaderCall(nil), r.loaderCalls...)
	r.loads += uint64(len(calls))
	r.loaderCalls = r.loaderCalls[:0]
	if live {
		r.hits++
		if *pv != nil {
			return r.fail(FPanic, "Get(%d) on a live entry panicked: %v", k, firstLine(fmt.Sprint(*pv)))
		}
		if gerr != nil || gv != e.Val {
			return r.fail(rf, "Get(%d) returned (%d,%v), model holds live %s", k, gv, gerr, r.descr(e))
		}
		r.applyExp(e, "read")
		if !isStale {
			if len(calls) > 0 {
				return r.fail(FRefresh, "Get(%d) on a fresh entry invoked the loader (%s)", k, calls[0].Kind)
			}
			return nil
		}
		r.St.DueReads++
		if r.Cfg.Executor == ExecDeferred {
			if len(calls) > 0 {
				return r.fail(FRefresh, "Get(%d) on a stale entry ran the loader before the executor ran the task", k)
			}
			r.pendRefresh = append(r.pendRefresh, pendRefresh{k, e.Val, true})
			return nil
		}
		if len(calls) != 1 || calls[0].Kind != "reload" || calls[0].Keys[0] != k || calls[0].Olds[0] != e.Val {
			return r.fail(FRefresh, "Get(%d) on a stale entry (value %d): expected exactly one Reload(%d,%d), loader calls: %s", k, e.Val, k, e.Val, fmtCalls(calls))
		}
		r.St.Reloads++
		if calls[0].Err != nil {
			r.St.ReloadNotSuccess++
		}
		return r.applyLoadResult(k, calls[0].Val, calls[0].Err, isNotFound(calls[0].Err), true, log)
	}
	// miss
	r.misses++
	if len(calls) != 1 || calls[0].Kind != "load" || calls[0].Keys[0] != k {
		return r.fail(FLoad, "Get(%d) on an absent key [entry %s]: expected exactly one Load(%d), loader calls: %s; returned (%d,%v)", k, r.descr(e), k, fmtCalls(calls), gv, gerr)
	}
	r.St.Loads++
	lc := calls[0]
	switch {
	case lc.Out == "panic":
		if *pv == nil {
			return r.fail(FLoad, "Get(%d): the loader panicked but Get returned (%d,%v)", k, gv, gerr)
		}
		return nil
	case *pv != nil:
		return r.fail(FPanic, "Get(%d) panicked: %v", k, firstLine(fmt.Sprint(*pv)))
	case isNotFound(lc.Err):
		if !isNotFound(gerr) {
			return r.fail(FLoad, "Get(%d): loader reported not-found but Get returned (%d,%v)", k, gv, gerr)
		}
	case lc.Err != nil:
		if gerr != lc.Err || gv != lc.Val {
			return r.fail(FLoad, "Get(%d): loader failed with (%d,%v) but Get returned (%d,%v)", k, lc.Val, lc.Err, gv, gerr)
		}
	default:
		if gerr != nil || gv != lc.Val {
			return r.fail(FLoad, "Get(%d): loader returned %d but Get returned (%d,%v)", k, lc.Val, gv, gerr)
		}
	}
	return r.applyLoadResult(k, lc.Val, lc.Err, isNotFound(lc.Err), false, log)
}

func fmtCalls(cs []loaderCall) string {
	s := "["
	for i, c := range cs {
		if i > 0 {
			s += " "
		}
		s += fmt.Sprintf("%s(keys=%v olds=%v)", c.Kind, c.Keys, c.Olds)
	}
	return s + "]"
}

// applyBulkResult applies a finished bulk call to the model.
func (r *Runner) applyBulkResult(lc loaderCall, isRefresh bool, log []HookCall) error {
	if Debug {
		fmt.Printf("  bulk %s keys=%v olds=%v res=%v err=%v pendingAtomic=%v\n", lc.Kind, lc.Keys, lc.Olds, lc.Res, lc.Err, r.Env.EvAtomic)
	}
	if lc.Err != nil {
		if err := r.preReconcile(lc.Keys); err != nil {
			return err
		}
		if isRefresh {
			for _, k := range lc.Keys {
				if cur := r.M[k]; cur != nil && r.live(cur) {
					r.applyRef(cur, "fail")
				}
			}
		}
		return nil
	}
	keys := append([]int(nil), lc.Keys...)
	sort.Ints(keys)
	all := append([]int(nil), keys...)
	for k, v := range lc.Res {
		all = append(all, k)
		r.stepWeightBound += uint64(r.Cfg.WeightOf(v))
	}
	if err := r.preReconcile(all); err != nil {
		return err
	}
	oldOf := map[int]int{}
	hasOld := lc.Kind == "bulkreload"
	for i, k := range lc.Keys {
		if hasOld && i < len(lc.Olds) {
			oldOf[k] = lc.Olds[i]
		}
	}
	req := map[int]bool{}
	for _, k := range keys {
		req[k] = true
		// the result of a requested key is applied only if the key still maps to what the call saw when it
		// started (absent/expired for a load, the reloaded value for a reload): a value volunteered by the other
		// half of the same call, or any write in between, supersedes it
		cur := r.M[k]
		if !r.autoRemovedStep[k] { // (an automatic removal in this very step is handled by applyLoadResult)
			if hasOld {
				if cur == nil || cur.Val != oldOf[k] {
					r.St.SupersededRefresh++
					continue
				}
			} else if cur != nil && r.live(cur) {
				r.St.SupersededRefresh++
				continue
			}
		}
		if v, ok := lc.Res[k]; ok {
			if err := r.applyLoadResult(k, v, nil, false, isRefresh, log); err != nil {
				return err
			}
		} else {
			if err := r.applyLoadResult(k, 0, nil, true, isRefresh, log); err != nil {
				return err
			}
		}
	}
	var extra []int
	for k := range lc.Res {
		if !req[k] {
			extra = append(extra, k)
		}
	}
	sort.Ints(extra)
	for _, k := range extra {
		if err := r.applyLoadResult(k, lc.Res[k], nil, false, isRefresh, log); err != nil {
			return err
		}
	}
	return nil
}

func (r *Runner) keyOf(x int) int {
	return ((x % r.Cfg.Keys) + r.Cfg.Keys) % r.Cfg.Keys
}

func (r *Runner) doBulkGet(a *Action, pv *any, call func(func())) error {
	c := r.Env.C
	keys := make([]int, len(a.Ks))
	for i, x := range a.Ks {
		keys[i] = r.keyOf(x)
	}
	// classify by the model
	var hits, misses, toReload, reloadOlds []int
	seen := map[int]bool{}
	want := map[int]int{}
	for _, k := range keys {
		if seen[k] {
			continue
		}
		seen[k] = true
		e := r.M[k]
		if r.live(e) {
			hits = append(hits, k)
			want[k] = e.Val
			if r.stale(e) {
				toReload = append(toReload, k)
				reloadOlds = append(reloadOlds, e.Val)
			}
		} else {
			misses = append(misses, k)
			if e != nil {
				r.St.OpsOnExpired++
				r.St.WritesOnExpired++
			}
		}
	}
	if len(toReload) > 0 {
		r.cur = r.noReloadPanic(a)
	}
	var res map[int]int
	var gerr error
	call(func() { res, gerr = c.BulkGet(ctxFor(a), keys, s1Loader{r}) })
	log := r.takeHooks()
	calls := append([]loaderCall(nil), r.loaderCalls...)
	r.loads += uint64(len(calls))
	r.loaderCalls = r.loaderCalls[:0]
	r.hits += uint64(len(hits))
	r.misses += uint64(len(misses))
	for _, k := range hits {
		r.applyExp(r.M[k], "read")
	}
	idx := 0
	if len(toReload) > 0 {
		r.St.DueReads += len(toReload)
		if r.Cfg.Executor == ExecDeferred {
			for i, k := range toReload {
				r.pendRefresh = append(r.pendRefresh, pendRefresh{k, reloadOlds[i], true})
			}
		} else {
			if len(calls) == 0 || calls[0].Kind != "bulkreload" || !sameSet(calls[0].Keys, toReload) {
				return r.fail(FRefresh, "BulkGet(%v): stale hits %v need exactly one BulkReload, loader calls: %s", keys, toReload, fmtCalls(calls))
			}
			for i, k := range calls[0].Keys {
				if e := r.M[k]; e == nil || calls[0].Olds[i] != e.Val {
					return r.fail(FRefresh, "BulkGet(%v): BulkReload got old value %d for key %d, model holds %s", keys, calls[0].Olds[i], k, r.descr(e))
				}
			}
			r.St.Reloads++
			if calls[0].Err != nil || len(calls[0].Res) < len(calls[0].Keys) {
				r.St.ReloadNotSuccess++
			}
			if err := r.applyBulkResult(calls[0], true, log); err != nil {
				return err
			}
			idx = 1
		}
	}
	rest := calls[idx:]
	if len(misses) == 0 {
		if len(rest) > 0 {
			return r.fail(FLoad, "BulkGet(%v): every key was cached but the loader ran: %s", keys, fmtCalls(rest))
		}
		if *pv != nil {
			return r.fail(FPanic, "BulkGet(%v) panicked: %v", keys, firstLine(fmt.Sprint(*pv)))
		}
		return r.cmpBulk(keys, res, gerr, want, false, nil)
	}
	if len(rest) != 1 || rest[0].Kind != "bulkload" || !sameSet(rest[0].Keys, misses) {
		return r.fail(FLoad, "BulkGet(%v): missing keys %v need exactly one BulkLoad with exactly those keys, loader calls: %s", keys, misses, fmtCalls(rest))
	}
	r.St.Loads++
	lc := rest[0]
	if len(hits) > 0 && (lc.Out == "partial" || lc.Out == "extra" || lc.Out == "partialextra") {
		r.St.BulkMixed++
	}
	if lc.Out == "panic" {
		if *pv == nil {
			return r.fail(FLoad, "BulkGet(%v): the bulk loader panicked but BulkGet returned", keys)
		}
		return nil
	}
	if *pv != nil {
		return r.fail(FPanic, "BulkGet(%v) panicked: %v", keys, firstLine(fmt.Sprint(*pv)))
	}
	if lc.Err != nil {
		return r.cmpBulk(keys, res, gerr, want, true, lc.Err)
	}
	var notFound []int
	for _, k := range misses {
		if v, ok := lc.Res[k]; ok {
			want[k] = v
		} else {
			notFound = append(notFound, k)
		}
	}
	if err := r.applyBulkResult(lc, false, log); err != nil {
		return err
	}
	// D4 recogniser: zero values for keys the loader did not supply
	if r.KnownFindings["D4-bulkget-zero-for-unloaded"] {
		for _, k := range notFound {
			if v, ok := res[k]; ok && v == 0 {
				delete(res, k)
				r.St.Known["D4-bulkget-zero-for-unloaded"]++
			}
		}
	}
	return r.cmpBulk(keys, res, gerr, want, false, nil)
}

func (r *Runner) cmpBulk(keys []int, res map[int]int, gerr error, want map[int]int, wantErr bool, lerr error) error {
	if wantErr {
		if gerr == nil {
			return r.fail(FLoad, "BulkGet(%v): the bulk loader failed (%v) but BulkGet returned a nil error", keys, lerr)
		}
	} else if gerr != nil {
		return r.fail(FLoad, "BulkGet(%v) returned error %v, none expected", keys, gerr)
	}
	for k, v := range res {
		w, ok := want[k]
		if !ok {
			return r.fail(FLoad, "BulkGet(%v): result contains key %d (value %d) which was neither cached nor supplied by the loader", keys, k, v)
		}
		if v != w {
			return r.fail(FLoad, "BulkGet(%v): result[%d]=%d, want %d", keys, k, v, w)
		}
	}
	if !wantErr {
		for k, w := range want {
			if v, ok := res[k]; !ok || v != w {
				return r.fail(FLoad, "BulkGet(%v): result lacks key %d (want %d), got %v", keys, k, w, res)
			}
		}
	}
	return nil
}

func (r *Runner) doRefresh(a *Action, k int, e *MEntry, live bool, pv *any, call func(func())) error {
	c := r.Env.C
	r.cur = r.noReloadPanic(a)
	var ch <-chan otter.RefreshResult[int, int]
	call(func() { ch = c.Refresh(ctxFor(a), k, s1Loader{r}) })
	log := r.takeHooks()
	calls := append([]loaderCall(nil), r.loaderCalls...)
	r.loads += uint64(len(calls))
	r.loaderCalls = r.loaderCalls[:0]
	if *pv != nil {
		return r.fail(FPanic, "Refresh(%d) panicked: %v", k, firstLine(fmt.Sprint(*pv)))
	}
	if r.Cfg.Refresh == RefNone {
		if ch != nil {
			return r.fail(FRefresh, "Refresh(%d) returned a channel although refreshing is not configured", k)
		}
		if len(calls) > 0 {
			return r.fail(FRefresh, "Refresh(%d) ran the loader although refreshing is not configured", k)
		}
		return nil
	}
	if ch == nil {
		return r.fail(FRefresh, "Refresh(%d) returned no channel", k)
	}
	pr := pendRefresh{key: k}
	if live {
		pr.oldVal, pr.hasOld = e.Val, true
	}
	if r.Cfg.Executor == ExecDeferred {
		if len(calls) > 0 {
			return r.fail(FRefresh, "Refresh(%d) ran the loader before the executor ran the task", k)
		}
		r.pendRefresh = append(r.pendRefresh, pr)
		r.refreshChans = append(r.refreshChans, &refreshWait{single: ch, keys: []int{k}})
		return nil
	}
	wantKind := "load"
	if live {
		wantKind = "reload"
	}
	if len(calls) != 1 || calls[0].Kind != wantKind || calls[0].Keys[0] != k || (live && calls[0].Olds[0] != e.Val) {
		return r.fail(FRefresh, "Refresh(%d) [entry %s]: expected exactly one %s, loader calls: %s", k, r.descr(e), wantKind, fmtCalls(calls))
	}
	lc := calls[0]
	r.St.Reloads++
	if lc.Err != nil {
		r.St.ReloadNotSuccess++
	}
	select {
	case res := <-ch:
		if res.Key != k || res.Err != lc.Err || (lc.Err == nil && res.Value != lc.Val) {
			return r.fail(FRefresh, "Refresh(%d): result {%d %d %v}, loader returned (%d,%v)", k, res.Key, res.Value, res.Err, lc.Val, lc.Err)
		}
	default:
		return r.fail(FRefresh, "Refresh(%d): no result on the channel after the reload finished", k)
	}
	r.refreshChans = append(r.refreshChans, &refreshWait{single: ch, keys: []int{k}, done: true})
	return r.applyLoadResult(k, lc.Val, lc.Err, isNotFound(lc.Err), true, log)
}

func (r *Runner) doBulkRefresh(a *Action, pv *any, call func(func())) error {
	c := r.Env.C
	r.cur = r.noReloadPanic(a)
	keys := make([]int, len(a.Ks))
	for i, x := range a.Ks {
		keys[i] = r.keyOf(x)
	}
	var distinct, toLoad, toReload []int
	olds := map[int]int{}
	seen := map[int]bool{}
	for _, k := range keys {
		if seen[k] {
			continue
		}
		seen[k] = true
		distinct = append(distinct, k)
		if e := r.M[k]; r.live(e) {
			toReload = append(toReload, k)
			olds[k] = e.Val
		} else {
			toLoad = append(toLoad, k)
		}
	}
	var ch <-chan []otter.RefreshResult[int, int]
	call(func() { ch = c.BulkRefresh(ctxFor(a), keys, s1Loader{r}) })
	log := r.takeHooks()
	calls := append([]loaderCall(nil), r.loaderCalls...)
	r.loads += uint64(len(calls))
	r.loaderCalls = r.loaderCalls[:0]
	if *pv != nil {
		return r.fail(FPanic, "BulkRefresh(%v) panicked: %v", keys, firstLine(fmt.Sprint(*pv)))
	}
	if r.Cfg.Refresh == RefNone {
		if ch != nil || len(calls) > 0 {
			return r.fail(FRefresh, "BulkRefresh(%v) returned a channel or ran the loader although refreshing is not configured", keys)
		}
		return nil
	}
	if ch == nil {
		return r.fail(FRefresh, "BulkRefresh(%v) returned no channel", keys)
	}
	if len(distinct) == 0 {
		select {
		case res := <-ch:
			if len(res) != 0 {
				return r.fail(FRefresh, "BulkRefresh([]) delivered %d results", len(res))
			}
		default:
			return r.fail(FRefresh, "BulkRefresh([]) delivered nothing")
		}
		r.refreshChans = append(r.refreshChans, &refreshWait{bulk: ch, done: true})
		return nil
	}
	if r.Cfg.Executor == ExecDeferred {
		if len(calls) > 0 {
			return r.fail(FRefresh, "BulkRefresh(%v) ran the loader before the executor ran the task", keys)
		}
		for _, k := range toLoad {
			r.pendRefresh = append(r.pendRefresh, pendRefresh{key: k})
		}
		for _, k := range toReload {
			r.pendRefresh = append(r.pendRefresh, pendRefresh{k, olds[k], true})
		}
		r.refreshChans = append(r.refreshChans, &refreshWait{bulk: ch, keys: distinct})
		return nil
	}
	idx := 0
	supplied := map[int]int{}
	failed := map[int]bool{}
	if len(toLoad) > 0 {
		if idx >= len(calls) || calls[idx].Kind != "bulkload" || !sameSet(calls[idx].Keys, toLoad) {
			return r.fail(FRefresh, "BulkRefresh(%v): absent keys %v need one BulkLoad, loader calls: %s", keys, toLoad, fmtCalls(calls))
		}
		lc := calls[idx]
		idx++
		r.St.Reloads++
		if lc.Err != nil {
			r.St.ReloadNotSuccess++
			for _, k := range lc.Keys {
				failed[k] = true
			}
		} else {
			for _, k := range lc.Keys {
				if v, ok := lc.Res[k]; ok {
					supplied[k] = v
				}
			}
		}
		if err := r.applyBulkResult(lc, true, log); err != nil {
			return err
		}
	}
	if len(toReload) > 0 {
		if idx >= len(calls) || calls[idx].Kind != "bulkreload" || !sameSet(calls[idx].Keys, toReload) {
			return r.fail(FRefresh, "BulkRefresh(%v): present keys %v need one BulkReload, loader calls: %s", keys, toReload, fmtCalls(calls))
		}
		lc := calls[idx]
		idx++
		for i, k := range lc.Keys {
			if lc.Olds[i] != olds[k] {
				return r.fail(FRefresh, "BulkRefresh(%v): BulkReload got old value %d for key %d, want %d", keys, lc.Olds[i], k, olds[k])
			}
		}
		r.St.Reloads++
		if lc.Err != nil {
			r.St.ReloadNotSuccess++
			for _, k := range lc.Keys {
				failed[k] = true
			}
		} else {
			if len(lc.Res) < len(lc.Keys) {
				r.St.ReloadNotSuccess++
			}
			for _, k := range lc.Keys {
				if v, ok := lc.Res[k]; ok {
					supplied[k] = v
				}
			}
		}
		if err := r.applyBulkResult(lc, true, log); err != nil {
			return err
		}
	}
	if idx != len(calls) {
		return r.fail(FRefresh, "BulkRefresh(%v): unexpected extra loader calls: %s", keys, fmtCalls(calls[idx:]))
	}
	select {
	case res := <-ch:
		got := map[int]bool{}
		extraN := 0
		for _, x := range res {
			if got[x.Key] {
				// a key volunteered by the BulkLoad half and requested in the BulkReload half is listed
				// by both; the property only promises one delivery per call
				extraN++
				continue
			}
			got[x.Key] = true
			if !seen[x.Key] {
				// keys the loader volunteered may be listed too (not excluded by the property)
				extraN++
				continue
			}
			if _, sup := supplied[x.Key]; failed[x.Key] && x.Err == nil || (!failed[x.Key] && x.Err != nil && (sup || !isNotFound(x.Err))) {
				return r.fail(FRefresh, "BulkRefresh(%v): result for key %d has Err=%v, loader failed=%v, supplied=%v", keys, x.Key, x.Err, failed[x.Key], sup)
			}
			if v, ok := supplied[x.Key]; ok && x.Value != v {
				// the same key may have been volunteered by the other half of the call
				okAny := false
				for _, lc := range calls {
					if v2, ok2 := lc.Res[x.Key]; ok2 && v2 == x.Value {
						okAny = true
					}
				}
				if !okAny {
					return r.fail(FRefresh, "BulkRefresh(%v): result for key %d is %d, loader supplied %d", keys, x.Key, x.Value, v)
				}
			}
		}
		for _, k := range distinct {
			if !got[k] {
				return r.fail(FRefresh, "BulkRefresh(%v): result lacks requested key %d", keys, k)
			}
		}
	default:
		return r.fail(FRefresh, "BulkRefresh(%v): no result on the channel after the reload finished", keys)
	}
	r.refreshChans = append(r.refreshChans, &refreshWait{bulk: ch, keys: distinct, done: true})
	return nil
}

// applyDeferredLoads reconciles loader invocations made by deferred tasks.
func (r *Runner) applyDeferredLoads() error {
	calls := append([]loaderCall(nil), r.loaderCalls...)
	r.loaderCalls = r.loaderCalls[:0]
	r.loads += uint64(len(calls))
	log := r.takeHooks()
	take := func(k int, old int, hasOld bool) bool {
		for i, p := range r.pendRefresh {
			if p.key == k && p.hasOld == hasOld && (!hasOld || p.oldVal == old) {
				r.pendRefresh = append(r.pendRefresh[:i], r.pendRefresh[i+1:]...)
				return true
			}
		}
		return false
	}
	// A refresh handed to a deferred executor applies its result only if the key still maps to what the
	// triggering call saw (a write, invalidation or eviction in between supersedes it).
	unchanged := func(k int, old int, hasOld bool) bool {
		cur := r.M[k]
		if r.autoRemovedStep[k] {
			return true // decided by applyLoadResult from what the cache reports
		}
		if hasOld {
			return cur != nil && cur.Val == old
		}
		return cur == nil || !r.live(cur)
	}
	for _, lc := range calls {
		r.St.Reloads++
		switch lc.Kind {
		case "load", "reload":
			hasOld := lc.Kind == "reload"
			old := 0
			if hasOld {
				old = lc.Olds[0]
			}
			if !take(lc.Keys[0], old, hasOld) {
				return r.fail(FRefresh, "executor task invoked %s(%d, old=%v) but no refresh of that key with that old value was pending", lc.Kind, lc.Keys[0], lc.Olds)
			}
			if lc.Err != nil {
				r.St.ReloadNotSuccess++
			}
			if err := r.preReconcile(lc.Keys); err != nil {
				return err
			}
			if !unchanged(lc.Keys[0], old, hasOld) {
				if lc.Err != nil && !isNotFound(lc.Err) {
					if cur := r.M[lc.Keys[0]]; cur != nil && r.live(cur) {
						r.applyRef(cur, "fail")
					}
				}
				r.St.SupersededRefresh++
				continue
			}
			if err := r.applyLoadResult(lc.Keys[0], lc.Val, lc.Err, isNotFound(lc.Err), true, log); err != nil {
				return err
			}
		case "bulkload", "bulkreload":
			hasOld := lc.Kind == "bulkreload"
			for i, k := range lc.Keys {
				old := 0
				if hasOld {
					old = lc.Olds[i]
				}
				if !take(k, old, hasOld) {
					return r.fail(FRefresh, "executor task invoked %s for key %d (old=%d) but no such refresh was pending", lc.Kind, k, old)
				}
			}
			if lc.Err != nil || len(lc.Res) < len(lc.Keys) {
				r.St.ReloadNotSuccess++
			}
			// keys whose mapping changed since the refresh was triggered are skipped (superseded)
			if lc.Err == nil {
				if err := r.preReconcile(lc.Keys); err != nil {
					return err
				}
				var keep []int
				var keepOlds []int
				for i, k := range lc.Keys {
					old := 0
					if hasOld {
						old = lc.Olds[i]
					}
					if unchanged(k, old, hasOld) {
						keep = append(keep, k)
						if hasOld {
							keepOlds = append(keepOlds, old)
						}
					} else {
						r.St.SupersededRefresh++
					}
				}
				filtered := lc
				filtered.Keys, filtered.Olds = keep, keepOlds
				res := map[int]int{}
				drop := map[int]bool{}
				for _, k := range lc.Keys {
					drop[k] = true
				}
				for _, k := range keep {
					drop[k] = false
				}
				for k, v := range lc.Res {
					if !drop[k] {
						res[k] = v
					}
				}
				filtered.Res = res
				lc = filtered
			}
			if err := r.applyBulkResult(lc, true, log); err != nil {
				return err
			}
		}
	}
	return nil
}

// drainRefreshChans checks "exactly one result per call".
func (r *Runner) drainRefreshChans(final bool) error {
	for _, w := range r.refreshChans {
		if w.single != nil {
			select {
			case res := <-w.single:
				if w.done {
					return r.fail(FRefresh, "Refresh(%d): a second result was delivered: %+v", w.keys[0], res)
				}
				w.done = true
				if res.Key != w.keys[0] {
					return r.fail(FRefresh, "Refresh(%d): result for key %d", w.keys[0], res.Key)
				}
			default:
			}
		} else if w.bulk != nil {
			select {
			case res := <-w.bulk:
				if w.done {
					return r.fail(FRefresh, "BulkRefresh(%v): a second result was delivered", w.keys)
				}
				w.done = true
				got := map[int]bool{}
				for _, x := range res {
					got[x.Key] = true
				}
				for _, k := range w.keys {
					if !got[k] {
						return r.fail(FRefresh, "BulkRefresh(%v): result lacks key %d", w.keys, k)
					}
				}
			default:
			}
		}
		if final && !w.done {
			return r.fail(FRefresh, "Refresh/BulkRefresh(%v): no result was delivered by quiescence", w.keys)
		}
	}
	if final && len(r.pendRefresh) > 0 {
		return r.fail(FRefresh, "at quiescence %d submitted refreshes never ran a loader: %+v", len(r.pendRefresh), r.pendRefresh)
	}
	return nil
}

func (r *Runner) doIter(a *Action, pv *any, call func(func())) error {
	c := r.Env.C
	type kv struct{ k, v int }
	var got []kv
	which := a.N % 5
	names := []string{"All", "Keys", "Values", "Hottest", "Coldest"}
	var entries []otter.Entry[int, int]
	// The iterator is obtained first and ranged after the clock has moved by a.Dur (usually 0): what it
	// yields is judged at the time of ranging.
	stop := a.D
	late := a.Dur
	if nv, of := SatAdd(r.now(), late); late < 0 || of || nv > math.MaxInt64-(1<<50) {
		late = 0
	}
	// a.Sel == 7: the clock moves *during* the iteration instead (in the loop body, after the first element): an element is
	// judged at the time it is yielded - one that was prefetched before its deadline and handed out after it is a stale read
	mid := int64(0)
	if a.Sel == 7 && which != 2 {
		mid, late = late, 0
	}
	t0 := r.now()
	advanced := false
	// the model's entries as they are before the iteration (an iteration that comes across expired entries may trigger
	// maintenance, whose removals are reconciled afterwards)
	pre := make(map[int]*MEntry, len(r.M))
	for k, e := range r.M {
		pre[k] = e
	}
	onYield := func(n int) {
		if mid > 0 && n == 1 && !advanced {
			advanced = true
			r.Env.Clock.Advance(mid)
		}
	}
	call(func() {
		var s2 iter.Seq2[int, int]
		var s1k, s1v iter.Seq[int]
		var se iter.Seq[otter.Entry[int, int]]
		switch which {
		case 0:
			s2 = c.All()
		case 1:
			s1k = c.Keys()
		case 2:
			s1v = c.Values()
		case 3:
			se = c.Hottest()
		case 4:
			se = c.Coldest()
		}
		if late > 0 {
			r.Env.Clock.Advance(late)
		}
		// a.D > 0: the caller leaves the loop after a.D elements
		switch which {
		case 0:
			for k, v := range s2 {
				got = append(got, kv{k, v})
				onYield(len(got))
				if stop > 0 && len(got) >= stop {
					break
				}
			}
		case 1:
			for k := range s1k {
				got = append(got, kv{k, 0})
				onYield(len(got))
				if stop > 0 && len(got) >= stop {
					break
				}
			}
		case 2:
			for v := range s1v {
				got = append(got, kv{0, v})
				if stop > 0 && len(got) >= stop {
					break
				}
			}
		default:
			for en := range se {
				got = append(got, kv{en.Key, en.Value})
				entries = append(entries, en)
				onYield(len(got))
				if stop > 0 && len(got) >= stop {
					break
				}
			}
		}
	})
	if *pv == nil && !c.VerifEvictionLockFree() {
		return r.fail(FBook, "%s(): the iteration is over (left after %d elements) but the eviction lock is still held", names[which], len(got))
	}
	if *pv != nil {
		return r.fail(FPanic, "%s() panicked: %v", names[which], firstLine(fmt.Sprint(*pv)))
	}
	r.takeHooks()
	if which >= 3 {
		r.maintRan()
	}
	if err := r.reconcile(); err != nil {
		return err
	}
	if advanced {
		// judged element by element: the first one at the clock value before the advance, the others at the current one
		r.St.MidIterAdvances++
		seen := map[int]bool{}
		for i, g := range got {
			if seen[g.k] {
				return r.fail(FIter, "%s() yielded key %d twice", names[which], g.k)
			}
			seen[g.k] = true
			e := pre[g.k]
			liveThen := e != nil && (e.ExpInf || r.Cfg.Expiry == ExpNone || t0 < e.Exp)
			if i > 0 {
				liveThen = r.live(e)
			}
			if e == nil || (which != 1 && e.Val != g.v) {
				return r.fail(FIter, "%s() yielded (%d,%d) which the model does not hold", names[which], g.k, g.v)
			}
			if !liveThen {
				fct := FIter
				if r.Facets&FVis != 0 {
					fct = FVis
				}
				return r.fail(fct, "%s() yielded key %d as element %d at clock %d although its entry had expired by then (the clock moved from %d during the iteration): %s", names[which], g.k, i, r.now(), t0, r.descr(e))
			}
		}
		return nil
	}
	var want []kv
	for _, k := range r.sortedKeys() {
		e := r.M[k]
		if !r.live(e) {
			continue
		}
		switch which {
		case 1:
			want = append(want, kv{k, 0})
		case 2:
			want = append(want, kv{0, e.Val})
		default:
			want = append(want, kv{k, e.Val})
		}
	}
	less := func(s []kv) func(i, j int) bool {
		return func(i, j int) bool {
			if s[i].k != s[j].k {
				return s[i].k < s[j].k
			}
			return s[i].v < s[j].v
		}
	}
	sort.Slice(got, less(got))
	sort.Slice(want, less(want))
	f := FIter
	if which >= 3 && r.Cfg.Bound != BoundNone {
		f = FBook
	}
	// an expired-unswept entry showing up is a visibility failure
	for _, g := range got {
		if which != 2 {
			if e := r.M[g.k]; e != nil && !r.live(e) && r.Facets&FVis != 0 {
				return r.fail(FVis, "%s() yields key %d whose entry expired: %s", names[which], g.k, r.descr(e))
			}
		}
	}
	if stop > 0 {
		// left early: the elements seen must be distinct members of the expected set, and there must be min(stop, all) of them
		r.St.EarlyExits++
		wantSet := map[kv]bool{}
		for _, w := range want {
			wantSet[w] = true
		}
		for i, g := range got {
			if !wantSet[g] {
				return r.fail(f, "%s() left after %d elements yielded %v, which is not among %v", names[which], stop, g, want)
			}
			if i > 0 && got[i-1] == g {
				return r.fail(f, "%s() left after %d elements yielded %v twice", names[which], stop, g)
			}
		}
		if len(got) != min(stop, len(want)) {
			return r.fail(f, "%s() left after %d elements yielded %d elements, %d are present", names[which], stop, len(got), len(want))
		}
	} else if len(got) != len(want) {
		return r.fail(f, "%s() yields %v, model says %v", names[which], got, want)
	}
	for i := range got {
		if stop > 0 {
			break
		}
		if got[i] != want[i] {
			return r.fail(f, "%s() yields %v, model says %v", names[which], got, want)
		}
	}
	for _, en := range entries {
		if e := r.M[en.Key]; e != nil {
			if err := r.cmpEntry(names[which], en.Key, e, en); err != nil {
				return err
			}
		}
	}
	return nil
}

// doSaveLoad implements the C19 round trip against a fresh target cache.
func (r *Runner) doSaveLoad(a *Action) error {
	c := r.Env.C
	r.St.SaveLoads++
	var buf bytes.Buffer
	var pv any
	var serr error
	viaFile := ""
	if a.Sel == 1 {
		if dir, err := os.MkdirTemp("", "verif-saveload-"); err == nil {
			defer os.RemoveAll(dir)
			viaFile = filepath.Join(dir, "new", "sub", "cache.gob")
		}
	}
	func() {
		defer func() { pv = recover() }()
		if viaFile != "" {
			serr = otter.SaveCacheToFile(c, viaFile)
			return
		}
		serr = otter.SaveCacheTo(c, &buf)
	}()
	if pv != nil {
		return r.fail(FPanic, "SaveCacheTo panicked: %v", firstLine(fmt.Sprint(pv)))
	}
	if serr != nil {
		return r.fail(FRet, "SaveCacheTo failed: %v", serr)
	}
	r.takeHooks()
	r.maintRan()
	if err := r.reconcile(); err != nil {
		return err
	}
	// snapshot of the source as the cache itself reports it (saving ran the pending maintenance first)
	src := map[int]otter.Entry[int, int]{}
	for k := 0; k < r.Cfg.Keys; k++ {
		if g, ok := c.GetEntryQuietly(k); ok {
			src[k] = g
		}
	}
	// clock offset between save and load
	switch {
	case a.Dur > 0:
		if nv, of := SatAdd(r.now(), a.Dur); !of && nv < math.MaxInt64-(1<<50) {
			r.Env.Clock.Advance(a.Dur)
		}
	case a.Dur < 0:
		// exactly to the n-th smallest finite deadline of the snapshot
		var ds []int64
		for _, g := range src {
			if g.ExpiresAtNano != math.MaxInt64 && g.ExpiresAtNano > r.now() {
				ds = append(ds, g.ExpiresAtNano)
			}
		}
		if len(ds) > 0 {
			sort.Slice(ds, func(i, j int) bool { return ds[i] < ds[j] })
			t := ds[int(-a.Dur)%len(ds)]
			if t < math.MaxInt64-(1<<50) {
				r.Env.Clock.Set(t)
			}
		}
	}
	t2 := r.now()
	tcfg := r.Cfg
	tcfg.Executor = ExecInline
	tcfg.Stats = false
	if r.Cfg.Bound != BoundNone && a.N > 0 {
		tcfg.Maximum = uint64(a.N)
	}
	if tcfg.Bound != BoundNone && tcfg.Maximum == 0 {
		tcfg.Maximum = 1 // a bounded cache cannot be constructed with maximum 0
	}
	tenv := BuildEnv(tcfg, EnvOpts{})
	defer tenv.Close()
	tenv.Clock.Set(t2)
	var lerr error
	func() {
		defer func() { pv = recover() }()
		if viaFile != "" {
			lerr = otter.LoadCacheFromFile(tenv.C, viaFile)
			return
		}
		lerr = otter.LoadCacheFrom(tenv.C, bytes.NewReader(buf.Bytes()))
	}()
	if pv != nil {
		return r.fail(FPanic, "LoadCacheFrom panicked: %v", firstLine(fmt.Sprint(pv)))
	}
	if lerr != nil {
		return r.fail(FRet, "LoadCacheFrom failed: %v", lerr)
	}
	tenv.C.CleanUp()
	// L: source entries live at load time
	L := map[int]otter.Entry[int, int]{}
	var lw uint64
	expiredBetween, survivors := 0, 0
	for k, g := range src {
		if r.Cfg.Expiry != ExpNone && g.ExpiresAtNano <= t2 {
			expiredBetween++
			continue
		}
		L[k] = g
		lw += uint64(g.Weight)
		if g.ExpiresAtNano != math.MaxInt64 {
			survivors++
		}
	}
	if expiredBetween > 0 {
		r.St.SaveLoadExpired++
	}
	if expiredBetween > 0 && survivors > 0 {
		r.St.SaveLoadSurvivor++
	}
	var tw uint64
	tkeys := 0
	for k := 0; k < r.Cfg.Keys; k++ {
		g, ok := tenv.C.GetEntryQuietly(k)
		if !ok {
			continue
		}
		tkeys++
		tw += uint64(g.Weight)
		s, inL := L[k]
		if !inL {
			if _, inSrc := src[k]; inSrc {
				f := FRet
				if r.Facets&FVis != 0 {
					f = FVis
				}
				if r.known("D10-load-entry-expiring-exactly-now", src[k].ExpiresAtNano == t2) {
					continue
				}
				return r.fail(f, "save/load: key %d was loaded although it had expired at %d (load time %d)", k, src[k].ExpiresAtNano, t2)
			}
			return r.fail(FRet, "save/load: key %d was loaded but was absent from the source", k)
		}
		if g.Value != s.Value {
			return r.fail(FRet, "save/load: key %d loaded with value %d, source had %d", k, g.Value, s.Value)
		}
		if g.ExpiresAtNano != s.ExpiresAtNano {
			if r.known("D7-load-warmup-resets-deadline", r.Cfg.Expiry == ExpAccessing || r.Cfg.Expiry == ExpCustom) {
				continue
			}
			if r.known("KF-load-drops-never-deadline", s.ExpiresAtNano == math.MaxInt64) {
				continue
			}
			return r.fail(FRet, "save/load: key %d loaded with ExpiresAtNano %d, source had %d (load time %d)", k, g.ExpiresAtNano, s.ExpiresAtNano, t2)
		}
		if r.Cfg.Refresh != RefNone {
			if s.RefreshableAtNano > t2 {
				if g.RefreshableAtNano != s.RefreshableAtNano {
					if r.known("KF-load-drops-never-deadline", s.RefreshableAtNano == math.MaxInt64) {
						continue
					}
					return r.failFirst([]Facet{FRet, FRefresh}, "save/load: key %d loaded with RefreshableAtNano %d, source had %d (load time %d)", k, g.RefreshableAtNano, s.RefreshableAtNano, t2)
				}
			} else if g.RefreshableAtNano > t2+1 {
				return r.failFirst([]Facet{FRet, FRefresh}, "save/load: key %d was due for refresh (at %d) but was loaded with RefreshableAtNano %d (load time %d)", k, s.RefreshableAtNano, g.RefreshableAtNano, t2)
			}
		}
	}
	fits := r.Cfg.Bound == BoundNone || lw <= tcfg.Maximum
	if fits {
		if tkeys != len(L) {
			var missing []int
			for k := range L {
				if _, ok := tenv.C.GetEntryQuietly(k); !ok {
					missing = append(missing, k)
				}
			}
			sort.Ints(missing)
			zeroOnly := len(missing) > 0
			for _, k := range missing {
				if L[k].Weight != 0 {
					zeroOnly = false
				}
			}
			if r.known("D11-save-drops-zero-weight-tail", zeroOnly) {
				return nil
			}
			return r.fail(FRet, "save/load: the live contents (weight %d) fit the target maximum %d but keys %v were not loaded", lw, tcfg.Maximum, missing)
		}
	} else if tw > tcfg.Maximum {
		return r.fail(FRet, "save/load: the loaded cache weighs %d, its maximum is %d", tw, tcfg.Maximum)
	}
	return nil
}

// ctxFor returns the context of a load call: a cancelled one for actions marked so.
func ctxFor(a *Action) context.Context {
	if a != nil && a.Ctx == 1 {
		ctx, cancel := context.WithCancel(context.Background())
		cancel()
		return ctx
	}
	return context.Background()
}
