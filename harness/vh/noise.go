package vh

import (
	"runtime"
	"sync/atomic"
	"time"

	"github.com/maypok86/otter/v2/internal/verifhook"
)

func splitmix(x uint64) uint64 {
	x += 0x9e3779b97f4a7c15
	x = (x ^ (x >> 30)) * 0xbf58476d1ce4e5b9
	x = (x ^ (x >> 27)) * 0x94d049bb133111eb
	return x ^ (x >> 31)
}

// InstallNoise installs a hook handler that widens race windows at the verif
// yield points of free-running (S4) tests: with probability yieldPermille/1000
// a point yields the processor a few times, and with probability
// sleepPermille/1000 it sleeps 20-300 microseconds (long enough for another
// goroutine to complete a whole table resize or maintenance run). Any delay
// at a yield point is a legal schedule, so the oracles stay sound.
func InstallNoise(seed uint64, yieldPermille, sleepPermille int) (remove func()) {
	var ctr atomic.Uint64
	verifhook.Set(func(id string) {
		x := splitmix(ctr.Add(1) ^ seed)
		r := int(x % 1000)
		switch {
		case r < sleepPermille:
			time.Sleep(time.Duration(20+(x>>12)%280) * time.Microsecond)
		case r < sleepPermille+yieldPermille:
			for i := uint64(0); i <= (x>>12)%4; i++ {
				runtime.Gosched()
			}
		}
	})
	return func() { verifhook.Set(nil) }
}
