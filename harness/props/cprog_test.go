package props

import (
	"fmt"
	"math/rand"
	"os"
	"runtime"
	"runtime/debug"
	"sort"
	"strings"
	"sync"
	"sync/atomic"
	"testing"
	"time"

	"github.com/maypok86/otter/v2"
	"github.com/maypok86/otter/v2/stats"
	"github.com/maypok86/otter/v2/verifharness/vh"
	"pgregory.net/rapid"
)

// Concurrent cache programs for the end-state (conservation / bound /
// bookkeeping / statistics) oracles. Two ways to run the same kind of program:
//   S3: the hook-point scheduler owns the interleaving (small programs, the generated []int is the schedule);
//   S4: free-running goroutines on up to 16 cores with optional noise at the hook points (large programs).

type cpOp struct {
	Kind string `json:"kind"` // set setifabsent computewrite computeinvalidate computecancel invalidate get getentry invalidateall setmaximum
	Key  int    `json:"key"`
	W    int    `json:"w,omitempty"`
	N    int    `json:"n,omitempty"`
}

type cpCase struct {
	// Reentrant: the OnDeletion handler itself calls the cache (invalidates a neighbouring key, and re-sets a key after an
	// automatic removal, within a budget), as cascading listeners do.
	Reentrant bool     `json:"reentrant_handler,omitempty"`
	Bound     int      `json:"bound"` // 0 none 1 size 2 weight
	Max       int      `json:"max,omitempty"`
	Weights   []uint32 `json:"weights,omitempty"`
	Expiry    int      `json:"expiry"`   // 0 none, 1 writing (TTL 1000ns), 2 accessing
	Exec      int      `json:"executor"` // 0 caller-runs 1 goroutine 2 default
	Keys      int      `json:"keys"`
	Stats     bool     `json:"stats"`
	// S3
	Threads  [][]cpOp `json:"threads,omitempty"`
	Schedule []int    `json:"schedule,omitempty"`
	// S4
	Goroutines int   `json:"goroutines,omitempty"`
	OpsPerG    int   `json:"ops_per_goroutine,omitempty"`
	Phases     int   `json:"phases,omitempty"`
	Seed       int64 `json:"seed,omitempty"`
	Noise      int   `json:"noise,omitempty"`
	Procs      int   `json:"gomaxprocs,omitempty"`
	// Storm: write-only operation mix (the write buffer is pushed to as fast as the producers can)
	Storm bool `json:"storm,omitempty"`
	// StormInvalidateAll: now and then a storm goroutine calls InvalidateAll. With thousands of entries in the table and writers
	// that keep pushing while it holds the eviction lock, the write buffer reaches half its capacity during the call and
	// InvalidateAll has to fall back to removing the rest entry by entry after releasing the lock.
	StormInvalidateAll bool `json:"storm_invalidate_all,omitempty"`
	// ManyInvalidateAll: InvalidateAll is a common operation (3 %) instead of a rare one
	ManyInvalidateAll bool `json:"many_invalidate_all,omitempty"`
	// ShrinkAtEnd (bound oracle only): after the final state has been recorded the maximum is lowered to 0 and maintenance
	// runs once more; everything of positive weight must go
	ShrinkAtEnd bool `json:"shrink_at_end,omitempty"`
}

type cpEvent struct {
	Key, Val int
	Cause    otter.DeletionCause
}

type cpResult struct {
	Replaced   map[int]int // new value -> the value Set reported as replaced (same key)
	Installed  map[int]int // value -> key
	Weight     map[int]uint32
	Atomic     []cpEvent
	Async      []cpEvent
	Present    map[int]int // key -> value (All)
	PresentW   map[int]uint32
	Coldest    []int
	Hottest    []int
	Max        uint64
	Weighted   uint64
	Estimated  int
	Audit      otter.VerifAuditReport
	WriteBuf   int
	Drain      uint32
	Lookups    uint64
	Found      uint64
	Stats      stats.Stats
	StaleReads []string
	Hang       bool
	Panics     []any
	Fired      int
	Trace      []string
	ReadBuf    int // recorded reads still sitting in the read buffer after the final maintenance runs
	Expired    int // entries in the table that are expired at the end (not visible)
	Evictions  int
	PhaseReads int
	// after SetMaximum(0) at the very end (ShrinkAtEnd): entries of positive weight that are still present
	Shrunk          bool
	LeftAfterShrink [][3]int
}

var cpStormKinds = []string{"set", "set", "set", "set", "set", "computewrite", "invalidate", "setifabsent"}
var cpKinds = []string{"set", "set", "set", "set", "setifabsent", "computewrite", "computeinvalidate", "computecancel", "invalidate", "get", "get", "getentry"}

func genCPConfig(t *rapid.T, c *cpCase, needBound bool) {
	bounds := []int{0, 1, 2}
	if needBound {
		bounds = []int{1, 2}
	}
	c.Bound = pick(t, "bound", bounds...)
	if c.Bound != 0 {
		c.Max = pick(t, "max", 1, 2, 3, 5, 8)
	}
	if c.Bound == 2 {
		c.Weights = make([]uint32, 8)
		for i := range c.Weights {
			switch rapid.IntRange(0, 7).Draw(t, "wcls") {
			case 0:
				c.Weights[i] = 0
			case 1:
				c.Weights[i] = uint32(c.Max) + 1
			default:
				c.Weights[i] = uint32(rapid.IntRange(1, 4).Draw(t, "w"))
			}
		}
	}
	c.Expiry = pick(t, "expiry", 0, 0, 1, 2)
	c.Keys = rapid.IntRange(1, 8).Draw(t, "keys")
}

func genCPS3(t *rapid.T, needBound bool) cpCase {
	var c cpCase
	genCPConfig(t, &c, needBound)
	c.Exec = pick(t, "exec", 2, 2, 1, 0)
	kinds := append(append([]string(nil), cpKinds...), "invalidateall", "setmaximum")
	nt := rapid.IntRange(2, 4).Draw(t, "threads")
	for i := 0; i < nt; i++ {
		c.Threads = append(c.Threads, rapid.SliceOfN(rapid.Custom(func(t *rapid.T) cpOp {
			return cpOp{Kind: kinds[rapid.IntRange(0, len(kinds)-1).Draw(t, "kind")], Key: rapid.IntRange(0, c.Keys-1).Draw(t, "key"),
				W: rapid.IntRange(0, 7).Draw(t, "w"), N: rapid.IntRange(0, 9).Draw(t, "n")}
		}), 1, 7).Draw(t, "ops"))
	}
	c.Schedule = rapid.SliceOfN(rapid.IntRange(0, 7), 0, 600).Draw(t, "schedule")
	c.Reentrant = rapid.IntRange(0, 2).Draw(t, "reentrant") == 0
	return c
}

func genCPS4(t *rapid.T, needBound bool) cpCase {
	var c cpCase
	genCPConfig(t, &c, needBound)
	if c.Bound != 0 && rapid.Bool().Draw(t, "bigmax") {
		c.Max = pick(t, "max2", 16, 64, 300)
		if c.Bound == 2 {
			c.Weights[1] = uint32(c.Max) + 1
		}
	}
	c.Keys = pick(t, "keys4", 2, 8, 40, 400, 5000) // 5000: the table grows through several sizes during the run
	c.Exec = pick(t, "exec", 0, 1, 2)
	c.Stats = rapid.Bool().Draw(t, "stats")
	c.Goroutines = rapid.IntRange(2, 10).Draw(t, "g")
	c.OpsPerG = rapid.IntRange(20, 1500).Draw(t, "ops")
	c.Phases = rapid.IntRange(1, 3).Draw(t, "phases")
	c.Seed = rapid.Int64().Draw(t, "seed")
	c.Noise = pick(t, "noise", 0, 1, 2)
	c.Procs = pick(t, "procs", 16, 16, 4, 3, 6, 12) // the parallel table copy splits by GOMAXPROCS (powers of two and others)
	c.Reentrant = rapid.IntRange(0, 2).Draw(t, "reentrant4") == 0
	if c.Reentrant && c.Exec == 0 {
		// A handler that writes to the cache must not run on the maintenance goroutine itself: with a caller-runs
		// executor it is invoked under the (non-reentrant) eviction lock, and its write blocks on that lock as
		// soon as the write buffer is full. Free-running cases can fill the buffer, so they use a real executor.
		c.Exec = 1 + int(uint64(c.Seed)&1)
	}
	return c
}

type cpRun struct {
	c       cpCase
	cache   *otter.Cache[int, int]
	clock   *vh.ManualClock
	mu      sync.Mutex
	res     *cpResult
	valCtr  atomic.Int64
	lookups atomic.Uint64
	found   atomic.Uint64
	phase   atomic.Int64
	// deadline bound per value for the C03 phase oracle: the largest clock value at which the value may still be visible
	visibleUntil sync.Map // val -> int64
	counter      *stats.Counter
}

func (r *cpRun) weightOf(v int) uint32 {
	if r.c.Bound != 2 {
		return 1
	}
	return r.c.Weights[(v>>3)&7]
}

const cpTTL = 1000

func (r *cpRun) newVal(w int) int { return int(r.valCtr.Add(1))<<6 | (w&7)<<3 }

func (r *cpRun) installed(k, v int) {
	r.mu.Lock()
	r.res.Installed[v] = k
	r.res.Weight[v] = r.weightOf(v)
	r.mu.Unlock()
}

// noteWrite / noteRead maintain, for the phase oracle of C03, an upper bound of the deadline of each value:
// the clock only moves at phase barriers, so a value written or (access-based policy) read in the phase whose
// clock value is T can be visible at most while clock < T + ttl.
func (r *cpRun) noteWrite(v int) {
	if r.c.Expiry != 0 {
		r.visibleUntil.Store(v, r.clock.Now()+cpTTL)
	}
}

func (r *cpRun) observe(k, v int, ok bool, what string) {
	r.lookups.Add(1)
	if !ok {
		return
	}
	r.found.Add(1)
	if r.c.Expiry == 0 {
		return
	}
	now := r.clock.Now()
	if u, has := r.visibleUntil.Load(v); has && now >= u.(int64) {
		r.mu.Lock()
		if len(r.res.StaleReads) < 5 {
			r.res.StaleReads = append(r.res.StaleReads, fmt.Sprintf("%s(%d) returned value %d at clock %d although every deadline it can have had passed at %d", what, k, v, now, u.(int64)))
		}
		r.mu.Unlock()
	}
	if r.c.Expiry == 2 {
		r.visibleUntil.Store(v, now+cpTTL) // the read extends the deadline
	}
	r.mu.Lock()
	r.res.PhaseReads++
	r.mu.Unlock()
}

func (r *cpRun) do(op cpOp) {
	c := r.cache
	k := op.Key
	switch op.Kind {
	case "set":
		v := r.newVal(op.W)
		r.noteWrite(v)
		if old, ok := c.Set(k, v); !ok {
			r.mu.Lock()
			r.res.Replaced[v] = old
			r.mu.Unlock()
		}
		r.installed(k, v)
	case "setifabsent":
		v := r.newVal(op.W)
		r.noteWrite(v)
		if got, ok := c.SetIfAbsent(k, v); ok {
			r.installed(k, v)
		} else {
			r.observe(k, got, true, "SetIfAbsent")
			r.lookups.Add(^uint64(0)) // SetIfAbsent is not a counting lookup
			r.found.Add(^uint64(0))
		}
	case "computewrite", "computeinvalidate", "computecancel":
		v := r.newVal(op.W)
		r.noteWrite(v)
		wrote := false
		sawOld, sawFound := 0, false
		c.Compute(k, func(old int, found bool) (int, otter.ComputeOp) {
			sawOld, sawFound = old, found
			if found {
				r.found.Add(1)
			}
			switch op.Kind {
			case "computeinvalidate":
				return 0, otter.InvalidateOp
			case "computecancel":
				return 0, otter.CancelOp
			}
			wrote = true
			return v, otter.WriteOp
		})
		r.lookups.Add(1)
		if wrote {
			if sawFound {
				// the function saw the value it replaces (no other write takes effect in between): a link of the install chain
				r.mu.Lock()
				r.res.Replaced[v] = sawOld
				r.mu.Unlock()
			}
			r.installed(k, v)
		}
	case "invalidate":
		c.Invalidate(k)
	case "get":
		v, ok := c.GetIfPresent(k)
		r.observe(k, v, ok, "GetIfPresent")
	case "getentry":
		e, ok := c.GetEntry(k)
		r.observe(k, e.Value, ok, "GetEntry")
	case "invalidateall":
		c.InvalidateAll()
	case "setmaximum":
		if r.c.Bound != 0 {
			c.SetMaximum(uint64(op.N))
		}
	}
}

// runCP executes the program and collects the end state after quiescence.
func runCP(c cpCase, s3 bool) *cpResult {
	res := &cpResult{Replaced: map[int]int{}, Installed: map[int]int{}, Weight: map[int]uint32{}, Present: map[int]int{}, PresentW: map[int]uint32{}}
	r := &cpRun{c: c, res: res}
	if c.Procs > 0 {
		defer runtime.GOMAXPROCS(runtime.GOMAXPROCS(c.Procs))
	}
	r.clock = &vh.ManualClock{}
	r.clock.Set(1_000_000_000)
	opts := &otter.Options[int, int]{Clock: r.clock, Logger: &vh.RecLogger{}}
	switch c.Bound {
	case 1:
		opts.MaximumSize = c.Max
	case 2:
		opts.MaximumWeight = uint64(c.Max)
		opts.Weigher = func(k, v int) uint32 { return c.Weights[(v>>3)&7] }
	}
	switch c.Expiry {
	case 1:
		opts.ExpiryCalculator = otter.ExpiryWriting[int, int](cpTTL * time.Nanosecond)
	case 2:
		opts.ExpiryCalculator = otter.ExpiryAccessing[int, int](cpTTL * time.Nanosecond)
	}
	if c.Stats {
		r.counter = stats.NewCounter()
		opts.StatsRecorder = r.counter
	}
	opts.OnAtomicDeletion = func(e otter.DeletionEvent[int, int]) {
		r.mu.Lock()
		res.Atomic = append(res.Atomic, cpEvent{e.Key, e.Value, e.Cause})
		r.mu.Unlock()
	}
	var reentryBudget atomic.Int64
	reentryBudget.Store(40)
	opts.OnDeletion = func(e otter.DeletionEvent[int, int]) {
		r.mu.Lock()
		res.Async = append(res.Async, cpEvent{e.Key, e.Value, e.Cause})
		r.mu.Unlock()
		if c.Reentrant && reentryBudget.Add(-1) >= 0 {
			// never an operation that takes the eviction lock unconditionally: with a caller-runs executor this handler
			// runs inside maintenance
			if e.Cause.IsEviction() && e.Value%2 == 0 {
				r.do(cpOp{Kind: "set", Key: e.Key, W: e.Value & 7})
			} else {
				r.do(cpOp{Kind: "invalidate", Key: (e.Key + 1) % max(1, c.Keys)})
			}
		}
	}
	var execWG sync.WaitGroup
	var sched *vh.Sched
	if s3 {
		sched = vh.NewSched(c.Schedule)
		defer sched.Close()
	}
	var runDone atomic.Bool
	spawn := func(fn func()) {
		if s3 && !runDone.Load() {
			sched.Go("exec", fn)
			return
		}
		execWG.Add(1)
		go func() {
			defer execWG.Done()
			defer func() {
				if p := recover(); p != nil {
					// A task the cache handed to its executor (maintenance, a notification) panicked. The run cannot go on -
					// the eviction lock is still held - and the process would die anyway: report it as what it is.
					msg := fmt.Sprintf("a task the cache handed to its executor panicked: %v; stack: %s", p, cpShortStack())
					fmt.Println(cpCurrentProp + ": " + msg)
					vh.ReportViolation(cpCurrentProp, cpCurrentTest, c, msg)
					os.Exit(1)
				}
			}()
			fn()
		}()
	}
	switch c.Exec {
	case 0:
		opts.Executor = func(fn func()) { fn() }
	case 1:
		opts.Executor = spawn
	case 2:
		restore := otter.VerifSetDefaultExecutor(spawn)
		defer restore()
	}
	r.cache = otter.Must(opts)
	defer func() {
		r.cache.StopAllGoroutines()
		r.cache = nil // break the handler-closure -> cpRun -> *Cache cycle (see vh.Env.Close)
	}()
	if s3 {
		for _, ops := range c.Threads {
			ops := ops
			sched.Go("w", func() {
				for _, op := range ops {
					r.do(op)
				}
			})
		}
		res.Panics = sched.Run(8 * time.Second)
		runDone.Store(true)
		res.Hang = sched.Hang
		res.Fired = sched.Fired
		res.Trace = sched.Trace
		if res.Hang {
			return res
		}
	} else {
		if c.Noise > 0 {
			sl := 0
			if c.Noise == 2 {
				sl = 4
			}
			defer vh.InstallNoise(uint64(c.Seed), 250, sl)()
		}
		phases := max(1, c.Phases)
		for ph := 0; ph < phases; ph++ {
			var wg sync.WaitGroup
			for g := 0; g < c.Goroutines; g++ {
				wg.Add(1)
				go func(g int) {
					defer wg.Done()
					defer func() {
						if p := recover(); p != nil {
							r.mu.Lock()
							res.Panics = append(res.Panics, p)
							r.mu.Unlock()
						}
					}()
					rng := rand.New(rand.NewSource(c.Seed + int64(g)*7919 + int64(ph)*104729))
					for i := 0; i < c.OpsPerG; i++ {
						kind := cpKinds[rng.Intn(len(cpKinds))]
						if c.Storm {
							kind = cpStormKinds[rng.Intn(len(cpStormKinds))]
						}
						if x := rng.Intn(400); c.Storm {
							if c.StormInvalidateAll && rng.Intn(1200) == 0 {
								kind = "invalidateall"
							}
						} else if x == 0 || (c.ManyInvalidateAll && x < 12) {
							kind = "invalidateall"
						} else if x == 1 {
							kind = "setmaximum"
						}
						r.do(cpOp{Kind: kind, Key: rng.Intn(c.Keys), W: rng.Intn(8), N: rng.Intn(2 * max(1, c.Max))})
					}
				}(g)
			}
			wg.Wait()
			execWG.Wait()
			// the clock only moves between phases, while no operation is running
			r.clock.Advance(int64(300 + 450*ph))
		}
	}
	// quiescence: every call returned; let pending maintenance run
	for i := 0; i < 200; i++ {
		r.cache.CleanUp()
		execWG.Wait()
		// a re-entrant handler may write again while this maintenance delivers its notifications: repeat until nothing is pending
		if i >= 2 && r.cache.VerifWriteBufferSize() == 0 && r.cache.VerifDrainStatus() == 0 {
			break
		}
	}
	res.Lookups, res.Found = r.lookups.Load(), r.found.Load()
	res.ReadBuf = r.cache.VerifReadBufferLen()
	for k, v := range r.cache.All() {
		res.Present[k] = v
		if e, ok := r.cache.GetEntryQuietly(k); ok {
			res.PresentW[k] = e.Weight
		}
	}
	if c.Bound != 0 {
		for e := range r.cache.Coldest() {
			res.Coldest = append(res.Coldest, e.Key)
		}
		for e := range r.cache.Hottest() {
			res.Hottest = append(res.Hottest, e.Key)
		}
	}
	res.Max = r.cache.GetMaximum()
	res.Weighted = r.cache.WeightedSize()
	res.Estimated = r.cache.EstimatedSize()
	execWG.Wait()
	res.Audit = r.cache.VerifAudit()
	res.WriteBuf = r.cache.VerifWriteBufferSize()
	res.Drain = r.cache.VerifDrainStatus()
	if c.Stats {
		res.Stats = r.cache.Stats()
	}
	res.Expired = res.Audit.TableNodes - len(res.Present)
	sort.Ints(res.Coldest)
	sort.Ints(res.Hottest)
	if c.ShrinkAtEnd && c.Bound != 0 {
		res.Shrunk = true
		r.cache.SetMaximum(0)
		for i := 0; i < 200; i++ {
			r.cache.CleanUp()
			execWG.Wait()
			if i >= 2 && r.cache.VerifWriteBufferSize() == 0 && r.cache.VerifDrainStatus() == 0 {
				break
			}
		}
		for k, v := range r.cache.All() {
			if e, ok := r.cache.GetEntryQuietly(k); ok && e.Weight > 0 {
				res.LeftAfterShrink = append(res.LeftAfterShrink, [3]int{k, v, int(e.Weight)})
			}
		}
	}
	return res
}

// ---- oracles ------------------------------------------------------------------

func cpConservation(c cpCase, res *cpResult) error {
	seenA := map[int]cpEvent{}
	for _, e := range res.Atomic {
		if _, dup := seenA[e.Val]; dup {
			return fmt.Errorf("OnAtomicDeletion reported value %d (key %d) twice", e.Val, e.Key)
		}
		seenA[e.Val] = e
		k, ok := res.Installed[e.Val]
		if !ok {
			return fmt.Errorf("OnAtomicDeletion reported (%d,%d,%s) but that value was never installed", e.Key, e.Val, e.Cause)
		}
		if k != e.Key {
			return fmt.Errorf("OnAtomicDeletion reported value %d under key %d, it was written to key %d", e.Val, e.Key, k)
		}
		if e.Cause == otter.CauseOverflow && c.Bound == 0 {
			return fmt.Errorf("Overflow reported in an unbounded cache: (%d,%d)", e.Key, e.Val)
		}
		if e.Cause == otter.CauseExpiration && c.Expiry == 0 {
			return fmt.Errorf("Expiration reported without an expiration policy: (%d,%d)", e.Key, e.Val)
		}
		if e.Cause == otter.CauseOverflow && res.Weight[e.Val] == 0 {
			return fmt.Errorf("Overflow reported for the zero-weight value (%d,%d)", e.Key, e.Val)
		}
	}
	// For one key the atomic handler sees removals in the order the values were installed: Set(k, new) returned old,
	// so old was installed before new; if both were reported, old's report precedes new's.
	pos := map[int]int{}
	for i, e := range res.Atomic {
		pos[e.Val] = i
	}
	for nv, ov := range res.Replaced {
		pn, okn := pos[nv]
		po, oko := pos[ov]
		if !oko {
			return fmt.Errorf("key %d: value %d was replaced by value %d (the replacing call saw it as the live value), but OnAtomicDeletion never reported it", res.Installed[nv], ov, nv)
		}
		if a := res.Atomic[po]; a.Cause != otter.CauseReplacement && !(a.Cause == otter.CauseExpiration && c.Expiry != 0) {
			return fmt.Errorf("key %d: value %d was replaced by value %d (the replacing call saw it as the live value), but OnAtomicDeletion reported it with cause %s", res.Installed[nv], ov, nv, a.Cause)
		}
		if okn && !oko {
			return fmt.Errorf("value %d (key %d) replaced value %d and was itself reported as removed, but the replaced value was never reported", nv, res.Installed[nv], ov)
		}
		if okn && oko && po > pn {
			return fmt.Errorf("key %d: OnAtomicDeletion reported value %d before value %d although %d was installed first (Set returned it as the replaced value)", res.Installed[nv], nv, ov, ov)
		}
	}
	seenD := map[int]cpEvent{}
	for _, e := range res.Async {
		if _, dup := seenD[e.Val]; dup {
			return fmt.Errorf("OnDeletion delivered value %d (key %d) twice", e.Val, e.Key)
		}
		seenD[e.Val] = e
		a, ok := seenA[e.Val]
		if !ok {
			return fmt.Errorf("OnDeletion delivered (%d,%d,%s) which OnAtomicDeletion never reported", e.Key, e.Val, e.Cause)
		}
		if a.Key != e.Key {
			return fmt.Errorf("OnDeletion delivered value %d under key %d, OnAtomicDeletion under key %d", e.Val, e.Key, a.Key)
		}
	}
	for v, a := range seenA {
		if _, ok := seenD[v]; !ok {
			return fmt.Errorf("value (%d,%d) was reported to OnAtomicDeletion (%s) but never delivered to OnDeletion, although the cache is quiescent and maintenance has run", a.Key, v, a.Cause)
		}
	}
	presentVals := map[int]bool{}
	for k, v := range res.Present {
		presentVals[v] = true
		if _, rep := seenA[v]; rep {
			return fmt.Errorf("value (%d,%d) is still present but was reported as removed", k, v)
		}
		if _, ok := res.Installed[v]; !ok {
			return fmt.Errorf("value (%d,%d) is present but was never written", k, v)
		}
	}
	// values written = values present + values reported (expired-unswept entries are neither visible nor reported yet)
	missing := 0
	var example string
	for v, k := range res.Installed {
		if !presentVals[v] {
			if _, rep := seenA[v]; !rep {
				missing++
				example = fmt.Sprintf("(%d,%d)", k, v)
			}
		}
	}
	if missing > res.Expired {
		return fmt.Errorf("%d written value(s) are neither present nor reported as removed (e.g. %s); %d expired entries are still awaiting their sweep", missing, example, res.Expired)
	}
	return nil
}

func cpBound(c cpCase, res *cpResult) error {
	if c.Bound == 0 {
		return nil
	}
	var sum uint64
	for k, w := range res.PresentW {
		sum += uint64(w)
		if uint64(w) > res.Max {
			return fmt.Errorf("entry (%d,%d) of weight %d is heavier than the maximum %d", k, res.Present[k], w, res.Max)
		}
	}
	if sum > res.Max {
		return fmt.Errorf("at quiescence the entries present weigh %d, the maximum is %d", sum, res.Max)
	}
	if c.Bound == 2 && res.Weighted > res.Max {
		return fmt.Errorf("at quiescence WeightedSize()=%d, the maximum is %d", res.Weighted, res.Max)
	}
	for _, e := range res.Atomic {
		if e.Cause == otter.CauseOverflow && res.Weight[e.Val] == 0 {
			return fmt.Errorf("zero-weight entry (%d,%d) was removed for size", e.Key, e.Val)
		}
	}
	if res.Shrunk && len(res.LeftAfterShrink) > 0 && !c.Reentrant {
		l := res.LeftAfterShrink[0]
		return fmt.Errorf("after SetMaximum(0) and maintenance at the very end %d entries of positive weight are still present, e.g. (%d,%d) of weight %d: the bound cannot be restored", len(res.LeftAfterShrink), l[0], l[1], l[2])
	}
	return nil
}

func cpBookkeeping(c cpCase, res *cpResult) error {
	if len(res.Audit.Problems) > 0 {
		return fmt.Errorf("audit: %v", res.Audit.Problems)
	}
	if res.WriteBuf != 0 {
		return fmt.Errorf("write buffer holds %d events at quiescence", res.WriteBuf)
	}
	if res.Estimated != res.Audit.TableNodes {
		return fmt.Errorf("EstimatedSize()=%d but the table holds %d nodes", res.Estimated, res.Audit.TableNodes)
	}
	if res.Expired < 0 {
		return fmt.Errorf("All() yields %d entries, the table holds only %d", len(res.Present), res.Audit.TableNodes)
	}
	if c.Expiry == 0 && res.Expired != 0 {
		return fmt.Errorf("EstimatedSize()=%d but iteration yields %d entries", res.Estimated, len(res.Present))
	}
	if c.Bound != 0 {
		var keys []int
		for k := range res.Present {
			keys = append(keys, k)
		}
		sort.Ints(keys)
		if fmt.Sprint(keys) != fmt.Sprint(res.Coldest) || fmt.Sprint(keys) != fmt.Sprint(res.Hottest) {
			return fmt.Errorf("All() yields keys %v, Coldest() %v, Hottest() %v", keys, res.Coldest, res.Hottest)
		}
	}
	if c.Bound == 2 {
		var sum uint64
		for _, w := range res.PresentW {
			sum += uint64(w)
		}
		if res.Expired == 0 && res.Weighted != sum {
			return fmt.Errorf("WeightedSize()=%d but the entries present weigh %d", res.Weighted, sum)
		}
		if res.Weighted < sum {
			return fmt.Errorf("WeightedSize()=%d is below the weight %d of the entries present", res.Weighted, sum)
		}
	}
	return nil
}

func cpStats(c cpCase, res *cpResult) error {
	if !c.Stats {
		return nil
	}
	s := res.Stats
	if s.Hits+s.Misses != res.Lookups {
		return fmt.Errorf("hits(%d)+misses(%d) != %d counting lookups issued", s.Hits, s.Misses, res.Lookups)
	}
	if s.Hits != res.Found {
		return fmt.Errorf("hits=%d but %d counting lookups found an entry", s.Hits, res.Found)
	}
	var ov, ex uint64
	for _, e := range res.Atomic {
		switch e.Cause {
		case otter.CauseOverflow:
			ov++
		case otter.CauseExpiration:
			ex++
		}
	}
	if s.Evictions < ov || s.Evictions > ov+ex {
		return fmt.Errorf("evictions=%d, Overflow events=%d, Expiration events=%d", s.Evictions, ov, ex)
	}
	return nil
}

func cpClasses(c cpCase, res *cpResult) []string {
	cl := []string{fmt.Sprintf("bound:%d", c.Bound), fmt.Sprintf("expiry:%d", c.Expiry), fmt.Sprintf("executor:%d", c.Exec)}
	causes := map[otter.DeletionCause]bool{}
	for _, e := range res.Atomic {
		causes[e.Cause] = true
	}
	for k := range causes {
		cl = append(cl, "cause:"+k.String())
	}
	if res.Fired > 0 {
		cl = append(cl, "watchdog-fired")
	}
	if res.Expired > 0 {
		cl = append(cl, "expired-unswept-at-end")
	}
	if c.Reentrant {
		cl = append(cl, "reentrant-handler")
	}
	if c.Storm {
		cl = append(cl, "write-storm")
	}
	if c.StormInvalidateAll {
		cl = append(cl, "write-storm-with-invalidateall-over-a-big-table")
	}
	return cl
}

func cpSig(c cpCase, res *cpResult) uint64 {
	if len(c.Threads) > 0 {
		return vh.Sig(fmt.Sprint(c.Bound, c.Max, c.Expiry, c.Exec, c.Threads), fmt.Sprint(res.Trace))
	}
	return vh.Sig(fmt.Sprint(c))
}

type cpOracle struct {
	prop, test, rule  string
	s3                bool
	needBound         bool
	check             func(cpCase, *cpResult) error
	nontrivial        func(cpCase, *cpResult) bool
	forceStats        bool
	forceExpiry       bool
	storms            bool // half of the S4 cases are write storms
	manyInvalidateAll bool
}

func runCPProp(t *testing.T, oc cpOracle) {
	substrate := "free-running goroutines (S4): 2-10 goroutines x 20-1500 PRNG-driven operations per phase, 1-3 phases with the manual clock advanced only at the barriers between phases, GOMAXPROCS 3..16, optional yields/sleeps at the verif hook points; "
	gen := func(t *rapid.T) cpCase {
		c := genCPS4(t, oc.needBound)
		c.ManyInvalidateAll = oc.manyInvalidateAll && rapid.Bool().Draw(t, "manyia")
		if oc.storms && rapid.IntRange(0, stormOdds(oc.prop)).Draw(t, "storm") == 0 {
			c.Storm = true
			c.Goroutines = rapid.IntRange(6, 16).Draw(t, "stormg")
			c.OpsPerG = rapid.IntRange(800, 3000).Draw(t, "stormops")
			c.Phases = 1
			if !oc.needBound && rapid.IntRange(0, 3).Draw(t, "stormbig") == 0 {
				// a table of thousands of entries with maintenance enabled, and InvalidateAll calls in the middle of the storm
				c.Bound, c.Max, c.Weights, c.Keys, c.StormInvalidateAll = 0, 0, nil, 5000, true
				if c.Expiry == 0 {
					c.Expiry = 1
				}
			}
		}
		return c
	}
	if oc.s3 {
		substrate = "hook-point cooperative scheduler (S3): 2-4 threads x 1-7 operations, the generated []int picks which parked thread runs next at every verif hook point (incl. between a lookup and the recording of the read, after table computations, around evictions, inside the write buffer), cache-started goroutines are adopted as threads; "
		gen = func(t *rapid.T) cpCase { return genCPS3(t, oc.needBound) }
	}
	propMain(t, propSpec[cpCase]{
		Prop: oc.prop, Test: oc.test,
		Rule:        substrate + "operations: Set, SetIfAbsent, Compute(write/invalidate/cancel), Invalidate, GetIfPresent, GetEntry, rarely InvalidateAll and SetMaximum, in a third of the cases an OnDeletion handler that itself invalidates / re-sets keys (cascading listener), on unbounded / MaximumSize / MaximumWeight (weights 0, 1..4, > maximum) caches with and without (write- or access-based) expiry and caller-runs / goroutine / default executors; " + oc.rule,
		Assumptions: []string{"quiescence = every call returned, every cache-started goroutine joined, then CleanUp", "schedules are explored at hook-point granularity (S3) or sampled by the Go runtime (S4)"},
		Gen:         gen,
		Run: func(c cpCase) outcome {
			var o outcome
			if oc.forceStats {
				c.Stats = true
			}
			if oc.prop == "C04" {
				c.ShrinkAtEnd = true
			}
			if oc.forceExpiry && c.Expiry == 0 {
				c.Expiry = 1 + int(c.Seed&1)
			}
			cpCurrentProp, cpCurrentTest = oc.prop, oc.test
			res := runCP(c, oc.s3)
			if res.Hang {
				o.Inconcl = true
				return o
			}
			if len(res.Panics) > 0 {
				o.Err = fmt.Errorf("a cache operation panicked: %v", firstLineOf(res.Panics[0]))
			} else {
				o.Err = oc.check(c, res)
			}
			if o.Err != nil && oc.s3 {
				tail := res.Trace
				if len(tail) > 50 {
					tail = tail[len(tail)-50:]
				}
				o.Err = fmt.Errorf("%v; trace tail: %v", o.Err, tail)
			}
			o.NonTrivial = oc.nontrivial(c, res)
			o.Classes = cpClasses(c, res)
			o.Sig = cpSig(c, res)
			return o
		},
	})
}

// set by runCPProp before every run: which property/test a crash inside a cache-started task is reported under
var cpCurrentProp, cpCurrentTest string

// crashGuard (deferred in executor goroutines of free-running tests): a panic inside a task the cache handed to its
// executor cannot be survived (locks are held, the process would die): it is reported as a violation with the running case.
func crashGuard(prop, test string, c any) {
	if p := recover(); p != nil {
		msg := fmt.Sprintf("a task the cache handed to its executor panicked: %v; stack: %s", p, cpShortStack())
		fmt.Println(prop + ": " + msg)
		vh.ReportViolation(prop, test, c, msg)
		os.Exit(1)
	}
}

func cpShortStack() string {
	var keep []string
	for _, l := range strings.Split(string(debug.Stack()), "\n") {
		if strings.Contains(l, "otter/v2") && !strings.Contains(l, "verifharness") && !strings.HasPrefix(l, "\t") {
			keep = append(keep, strings.TrimSpace(l))
			if len(keep) >= 8 {
				break
			}
		}
	}
	return strings.Join(keep, " <- ")
}

func cpHasRemovals(c cpCase, res *cpResult) bool { return len(res.Atomic) >= 2 }

func TestC04_S3Bound(t *testing.T) {
	runCPProp(t, cpOracle{prop: "C04", test: "S3Bound", s3: true, needBound: true, check: cpBound,
		rule:       "oracle at quiescence: sum of weights present <= GetMaximum(), WeightedSize() <= GetMaximum(), no entry heavier than the maximum, no zero-weight entry reported Overflow; non-trivial = at least one Overflow removal",
		nontrivial: func(c cpCase, r *cpResult) bool { return cpCauses(r)[otter.CauseOverflow] }})
}

func TestC04_S4Bound(t *testing.T) {
	runCPProp(t, cpOracle{prop: "C04", test: "S4Bound", needBound: true, check: cpBound,
		rule:       "oracle at quiescence: sum of weights present <= GetMaximum(), WeightedSize() <= GetMaximum(), no entry heavier than the maximum, no zero-weight entry reported Overflow; non-trivial = at least one Overflow removal",
		nontrivial: func(c cpCase, r *cpResult) bool { return cpCauses(r)[otter.CauseOverflow] }})
}

func TestC05_S3Bookkeeping(t *testing.T) {
	runCPProp(t, cpOracle{prop: "C05", test: "S3Bookkeeping", s3: true, check: cpBookkeeping,
		rule:       "oracle at quiescence: the verif audit (table vs eviction deques vs timer wheel vs weight counters) reports nothing, EstimatedSize == table nodes, set(All) == set(Coldest) == set(Hottest) for bounded caches, WeightedSize == weights present, write buffer empty; non-trivial = >= 2 removals reported",
		nontrivial: cpHasRemovals})
}

func TestC05_S4Bookkeeping(t *testing.T) {
	runCPProp(t, cpOracle{prop: "C05", test: "S4Bookkeeping", storms: true, check: cpBookkeeping,
		rule:       "oracle at quiescence: the verif audit (table vs eviction deques vs timer wheel vs weight counters) reports nothing, EstimatedSize == table nodes, set(All) == set(Coldest) == set(Hottest) for bounded caches, WeightedSize == weights present, write buffer empty; non-trivial = >= 2 removals reported",
		nontrivial: cpHasRemovals})
}

func TestC06_S3Events(t *testing.T) {
	runCPProp(t, cpOracle{prop: "C06", test: "S3Events", s3: true, check: cpConservation,
		rule:       "oracle at quiescence: no value reported twice to either handler, every atomic report matched by exactly one OnDeletion, values written == values present + values reported, present values never reported, reported values were written to that key, per key the atomic reports follow the install chain given by Set's return values and by the values Compute's function saw (a replaced value is always reported, with cause Replacement), Overflow only in bounded caches and never for zero-weight values, Expiration only with an expiration policy; non-trivial = >= 2 removals reported",
		nontrivial: cpHasRemovals})
}

func TestC06_S4Events(t *testing.T) {
	runCPProp(t, cpOracle{prop: "C06", test: "S4Events", storms: true, check: cpConservation,
		rule:       "oracle at quiescence: no value reported twice to either handler, every atomic report matched by exactly one OnDeletion, values written == values present + values reported, present values never reported, reported values were written to that key, per key the atomic reports follow the install chain given by Set's return values and by the values Compute's function saw (a replaced value is always reported, with cause Replacement), Overflow only in bounded caches and never for zero-weight values, Expiration only with an expiration policy; non-trivial = >= 2 removals reported",
		nontrivial: cpHasRemovals})
}

func TestC20_S4Stats(t *testing.T) {
	runCPProp(t, cpOracle{prop: "C20", test: "S4Stats", forceStats: true, check: func(c cpCase, r *cpResult) error {
		c.Stats = true
		return cpStats(c, r)
	},
		rule:       "a stats.Counter is attached; oracle after quiescence: hits+misses == counting lookups issued (GetIfPresent, GetEntry, Compute), hits == lookups that returned an entry, #Overflow events <= evictions <= #Overflow + #Expiration events (exercises the striped adder under contention); non-trivial = >= 1000 lookups",
		nontrivial: func(c cpCase, r *cpResult) bool { return r.Lookups >= 1000 }})
}

func TestC03_S4Phases(t *testing.T) {
	runCPProp(t, cpOracle{prop: "C03", test: "S4Phases", forceExpiry: true, check: func(c cpCase, r *cpResult) error {
		if len(r.StaleReads) > 0 {
			return fmt.Errorf("%s", r.StaleReads[0])
		}
		return nil
	},
		rule:       "expiring configurations (TTL 1000 ns, clock advanced by 300..1200 ns only at phase barriers while no operation runs); every value carries an upper bound of its deadline (clock of the phase in which it was written or, under the access-based policy, last read, + TTL) that is valid under every schedule; oracle: no lookup returns a value whose bound has passed; non-trivial = >= 2 phases with expiry and reads that found entries",
		nontrivial: func(c cpCase, r *cpResult) bool { return c.Phases >= 2 && r.PhaseReads > 0 }})
}

func cpCauses(r *cpResult) map[otter.DeletionCause]bool {
	m := map[otter.DeletionCause]bool{}
	for _, e := range r.Atomic {
		m[e.Cause] = true
	}
	return m
}

// ---- C16, cache-level clause: no cache write is forgotten by the eviction and expiration policies --------

func cpNoWriteForgotten(c cpCase, res *cpResult) error {
	if err := cpBookkeeping(c, res); err != nil {
		return err
	}
	if err := cpConservation(c, res); err != nil {
		return err
	}
	if c.Bound != 0 {
		return cpBound(c, res)
	}
	return nil
}

func TestC16_S4Writes(t *testing.T) {
	runCPProp(t, cpOracle{prop: "C16", test: "S4Writes", storms: true, check: cpNoWriteForgotten,
		rule: "concurrent writers against a running maintenance consumer (the write buffer is pushed to while a pass drains it, passes are cut off at their budget and re-run); oracle at quiescence, i.e. once every write event must have been consumed: the verif audit (every table node known to the eviction deques and the timer wheel and nothing else, weight counters exact, write buffer empty), " +
			"the exactly-once ledger (every replaced or removed value reported to OnDeletion exactly once) and the size bound; non-trivial = >= 300 values written",
		nontrivial: func(c cpCase, r *cpResult) bool { return len(r.Installed) >= 300 }})
}

// stormOdds: one case in (n+1) is a write storm (C16's cache-level test is about the write buffer: half of its cases).
func stormOdds(prop string) int {
	if prop == "C16" {
		return 1
	}
	return 4
}

// ---- C17, cache-level clause under concurrency: the read buffer has ONE consumer at a time ------------------------

func TestC17_S4CacheReads(t *testing.T) {
	runCPProp(t, cpOracle{prop: "C17", test: "S4CacheReads", needBound: true, manyInvalidateAll: true,
		check: func(c cpCase, res *cpResult) error {
			if res.ReadBuf != 0 {
				return fmt.Errorf("at quiescence, after maintenance has run with nothing else going on, the read buffer still holds %d recorded reads (they are never delivered: a wedged ring)", res.ReadBuf)
			}
			return cpBookkeeping(c, res)
		},
		rule:       "bounded caches with readers, writers and - in half of the cases frequently - InvalidateAll callers (everything that drains the read buffer: maintenance runs on callers and executor goroutines, InvalidateAll); oracle at quiescence: after the final maintenance runs the read buffer is empty (every recorded read was delivered or discarded by a drain, none is stuck) and the policy's structures pass the audit; non-trivial = >= 200 lookups",
		nontrivial: func(c cpCase, r *cpResult) bool { return r.Lookups >= 200 }})
}
