package props

import (
	"bytes"
	"fmt"
	"testing"

	"github.com/maypok86/otter/v2"
	"github.com/maypok86/otter/v2/verifharness/vh"
	"pgregory.net/rapid"
)

// C18 at cache level: the estimates of the cache's OWN sketch never under-count, whatever other feature touches the
// sketch (run-time SetMaximum, loading a snapshot into a cache that is already tracking frequencies, growth of a
// weighted cache, aging).
//
// One goroutine, same-goroutine executor, CleanUp after every call, so every read is delivered to the policy (the lossy
// buffer holds one pending read at a time) and the harness knows a LOWER bound of how often each key was recorded in the
// current sampling period: +1 for a delivered hit and for the creation of an entry while tracking is enabled, halved at an
// aging step (the sketch's own size counter dropping tells), forgotten when the table is re-allocated (its length
// changes). Calls whose effect on the sketch is not certain (updates, snapshot loads) add nothing to the bound.

type ceAction struct {
	Op  string `json:"op"` // set read setmax save load burst (N buffered reads, then an overwrite or invalidation of the key, then maintenance)
	Key int    `json:"key"`
	N   int    `json:"n,omitempty"`
}

type ceCase struct {
	Weighted bool       `json:"weighted"`
	Max      int        `json:"max"`
	InitCap  int        `json:"init_cap,omitempty"`
	Keys     int        `json:"keys"`
	Prefill  int        `json:"prefill"` // entries written first (frequency tracking starts when the cache is half full)
	Actions  []ceAction `json:"actions"`
}

func genCE(t *rapid.T) ceCase {
	c := ceCase{
		Weighted: rapid.IntRange(0, 3).Draw(t, "weighted") == 0,
		Max:      pick(t, "max", 8, 10, 16, 25, 32, 64, 100, 128, 200),
		InitCap:  pick(t, "initcap", 0, 0, 4, 64),
	}
	c.Keys = rapid.IntRange(2, max(3, c.Max*2)).Draw(t, "keys")
	c.Prefill = pick(t, "prefill", 0, c.Max/2+1, c.Max/2+1, c.Max)
	ops := []string{"set", "set", "set", "read", "read", "read", "read", "setmax", "save", "load", "load", "burst", "burst"}
	c.Actions = rapid.SliceOfN(rapid.Custom(func(t *rapid.T) ceAction {
		a := ceAction{Op: ops[rapid.IntRange(0, len(ops)-1).Draw(t, "op")], Key: rapid.IntRange(0, c.Keys-1).Draw(t, "key")}
		if rapid.IntRange(0, 2).Draw(t, "hot") == 0 {
			a.Key = a.Key % 3 // a few hot keys collect high counts
		}
		switch a.Op {
		case "read":
			a.N = rapid.IntRange(1, 15).Draw(t, "n")
		case "burst":
			a.N = rapid.IntRange(-15, 15).Draw(t, "n") // negative: the reads are followed by an invalidation instead of an overwrite
		case "setmax":
			a.N = pick(t, "newmax", c.Max, c.Max/2, c.Max*2, c.Max+1, 8)
		}
		return a
	}), pick(t, "lenclass", 5, 30, 80), 150).Draw(t, "actions")
	return c
}

func runCE(c ceCase) (o outcome) {
	opts := &otter.Options[int, int]{Executor: func(fn func()) { fn() }, InitialCapacity: c.InitCap, Logger: &vh.RecLogger{}}
	if c.Weighted {
		opts.MaximumWeight = uint64(c.Max) * 2
		opts.Weigher = func(k, v int) uint32 { return uint32(1 + k%3) }
	} else {
		opts.MaximumSize = c.Max
	}
	cache := otter.Must(opts)
	defer cache.StopAllGoroutines()
	lb := map[int]uint64{}
	var snapshot []byte
	snapEntries := 0
	agings, reallocs, loads, high, staleReads := 0, 0, 0, 0, 0
	// call runs one cache call plus the maintenance that delivers its events, and keeps the lower bounds sound
	call := func(f func(), certain func(), uncertainIncrements int) error {
		size0, sample0, len0 := cache.VerifSketchState()
		f()
		cache.CleanUp()
		size1, _, len1 := cache.VerifSketchState()
		switch {
		case len1 != len0:
			reallocs++
			for k := range lb {
				delete(lb, k)
			}
		case size1 < size0 || (uncertainIncrements > 0 && size0+uint64(uncertainIncrements) >= sample0):
			agings++
			// how many aging steps can lie inside this call: the first needs the counter to reach the sampling period, every
			// further one at least half a period more (an aging step at least halves the counter)
			steps := uint64(1)
			if rem := size0 + uint64(uncertainIncrements); uncertainIncrements > 0 && rem > sample0 && sample0 >= 2 {
				steps += (rem - sample0) / (sample0 / 2)
			}
			for k := range lb {
				lb[k] >>= min(steps, 8)
			}
		case len0 > 0 && certain != nil:
			certain()
		}
		for k, l := range lb {
			if l >= 12 {
				high++
			}
			f := cache.VerifFrequency(k)
			if f < l || f > 15 {
				return fmt.Errorf("key %d was recorded at least %d times in the current sampling period (no aging step, no re-allocation of the sketch since), but the cache's estimate is %d [sketch: %d recordings of %d, table %d]", k, l, f, size1, sample0, len1)
			}
		}
		return nil
	}
	seq := 0
	for k := 0; k < c.Prefill; k++ {
		seq++
		cache.Set(k%c.Keys, seq)
		cache.CleanUp()
	}
	for i, a := range c.Actions {
		var err error
		switch a.Op {
		case "set":
			seq++
			_, present := cache.GetEntryQuietly(a.Key)
			err = call(func() { cache.Set(a.Key, seq) }, func() {
				if !present && lb[a.Key] < 15 {
					lb[a.Key]++ // a creation is recorded (an update may or may not be)
				}
			}, 0)
		case "read":
			for j := 0; j < a.N && err == nil; j++ {
				hit := false
				err = call(func() { _, hit = cache.GetIfPresent(a.Key) }, func() {
					if hit && lb[a.Key] < 15 {
						lb[a.Key]++
					}
				}, 0)
			}
		case "burst":
			// reads that wait in the read buffer while their entry is replaced or removed: they are delivered for a node that
			// is no longer alive, and are recordings of the key all the same
			n := a.N
			if n < 0 {
				n = -n
			}
			buffered := uint64(0)
			seq++
			err = call(func() {
				for j := 0; j < n; j++ {
					l0 := cache.VerifReadBufferLen()
					if _, hit := cache.GetIfPresent(a.Key); hit && cache.VerifReadBufferLen() == l0+1 {
						buffered++ // accepted by the buffer: the next maintenance delivers it
					}
				}
				if a.N < 0 {
					cache.Invalidate(a.Key)
				} else {
					cache.Set(a.Key, seq)
				}
			}, func() {
				lb[a.Key] = min(15, lb[a.Key]+buffered)
				if buffered > 0 {
					staleReads++
				}
			}, n+1)
		case "setmax":
			m := uint64(max(1, a.N))
			if c.Weighted {
				m *= 2
			}
			err = call(func() { cache.SetMaximum(m) }, nil, 0)
		case "save":
			var buf bytes.Buffer
			if e := otter.SaveCacheTo(cache, &buf); e != nil {
				o.Err = fmt.Errorf("step %d: SaveCacheTo: %v", i, e)
				return o
			}
			snapshot = buf.Bytes()
			snapEntries = cache.EstimatedSize()
		case "load":
			if snapshot == nil {
				continue
			}
			loads++
			// loading a snapshot into a cache that is already tracking frequencies: at most a Set and two reads per entry
			err = call(func() {
				if e := otter.LoadCacheFrom(cache, bytes.NewReader(snapshot)); e != nil {
					panic(e)
				}
			}, nil, 3*snapEntries+3)
		}
		if err != nil {
			o.Err = fmt.Errorf("step %d (%s): %v", i, a.Op, err)
			return o
		}
	}
	o.NonTrivial = high > 0
	if agings > 0 {
		o.Classes = append(o.Classes, "aging-step")
	}
	if reallocs > 0 {
		o.Classes = append(o.Classes, "sketch-reallocated")
	}
	if loads > 0 {
		o.Classes = append(o.Classes, "snapshot-loaded-into-a-tracking-cache")
	}
	if high > 0 {
		o.Classes = append(o.Classes, "estimate>=12-expected")
	}
	if staleReads > 0 {
		o.Classes = append(o.Classes, "reads-delivered-for-a-replaced-or-removed-entry")
	}
	kinds := ""
	for _, a := range c.Actions {
		kinds += a.Op[:2]
	}
	o.Sig = vh.Sig(fmt.Sprint(c.Weighted, c.Max, c.InitCap, c.Keys), kinds)
	return o
}

func TestC18_CacheEstimates(t *testing.T) {
	propMain(t, propSpec[ceCase]{
		Prop: "C18", Test: "CacheEstimates",
		Rule: "one goroutine, same-goroutine executor, CleanUp after every call or burst (so every read the buffer accepted reaches the policy): Set, runs of 1-15 GetIfPresent on (often hot) keys, run-time SetMaximum (halved, doubled, +1, 8), SaveCacheTo and LoadCacheFrom of an earlier snapshot into the same, already tracking cache, and bursts of up to 15 reads that stay in the read buffer while their entry is overwritten or invalidated (delivered for a node that is no longer alive, counted when the buffer accepted them), on size- and weight-bounded caches of 8-200 entries; " +
			"the harness keeps a lower bound of the recordings of each key in the current sampling period (+1 per delivered hit and per creation while tracking is on, halved when the sketch's size counter shows an aging step, dropped when the table length changes) and after every call the cache's own estimate of every key must be at least that bound and at most 15; non-trivial = some key had an expected estimate >= 12",
		Assumptions: []string{"the sketch counters are read through the verif exports VerifFrequency / VerifSketchState (read-only, under the eviction lock)"},
		Gen:         genCE, Run: runCE,
	})
}
