package props

import (
	"fmt"
	"math"
	"testing"

	"github.com/maypok86/otter/v2/internal/expiration"
	"github.com/maypok86/otter/v2/internal/generated/node"
	"github.com/maypok86/otter/v2/verifharness/vh"
	"pgregory.net/rapid"
)

// TestC13_WheelModel drives the hierarchical timer wheel (internal/expiration.Variable) directly, the way the cache's
// maintenance drives it - Add for a new or re-scheduled node, Delete (idempotent) for a removed one, Delete+Add for a
// delivered access, nothing at all for an access whose read event was dropped, DeleteExpired at monotone clock values -
// but with hundreds of timers per case whose deadlines sit on tick, span and wheel-turn boundaries of every level, and
// with clock jumps from one nanosecond to decades. Through the cache (S1Sweep) a case holds a handful of entries.
//
// Oracle after every DeleteExpired(T):
//   - the callback ran only for scheduled nodes, at most once per node, and only for nodes whose deadline is < T
//     (an entry is never expired early);
//   - no node stays scheduled whose deadline E and whose last scheduling time A (the wheel time at the harness's last
//     Add) both lie more than one tick (2^30 ns) before T - the wheel-level form of the property's statement;
//   - the wheel's bucket lists are well formed and hold exactly the scheduled nodes, each once.

const wheelTick = int64(1) << 30

type wheelOp struct {
	Kind string `json:"kind"` // add, del, extend, shorten, replace, sweep, sweepto
	ID   int    `json:"id,omitempty"`
	D    int64  `json:"d,omitempty"`    // duration (add/extend/shorten/replace) or clock advance (sweep)
	Back int64  `json:"back,omitempty"` // add: the write sampled the clock this long before the wheel's current time
	Res  bool   `json:"resched,omitempty"`
}

type wheelCase struct {
	Start int64     `json:"start"` // clock value of the first sweep
	Ops   []wheelOp `json:"ops"`
}

var wheelSpans = []int64{1 << 30, 1 << 36, 1 << 42, 1 << 47, 1 << 49}

func genWheelDur(t *rapid.T, label string) int64 {
	switch rapid.IntRange(0, 9).Draw(t, label+"kind") {
	case 0:
		return rapid.Int64Range(1, 2000).Draw(t, label)
	case 1, 2:
		// around a span boundary
		s := wheelSpans[rapid.IntRange(0, 4).Draw(t, label+"span")]
		return max(1, s+rapid.Int64Range(-3, 3).Draw(t, label+"off"))
	case 3, 4:
		// a multiple of a span (a full turn of a wheel is 64, 64, 32, 4 buckets), +-
		s := wheelSpans[rapid.IntRange(0, 4).Draw(t, label+"span")]
		m := rapid.Int64Range(1, 130).Draw(t, label+"mul")
		if s > math.MaxInt64/256 {
			m = min(m, 8)
		}
		return max(1, s*m+rapid.Int64Range(-2, 2).Draw(t, label+"off"))
	case 5:
		return math.MaxInt64 // saturates: never expires
	case 6:
		return rapid.Int64Range(1, 1<<62).Draw(t, label)
	default:
		// log-uniform
		b := rapid.IntRange(0, 55).Draw(t, label+"bits")
		return max(1, rapid.Int64Range(0, (int64(1)<<b)).Draw(t, label))
	}
}

func genWheel(t *rapid.T) wheelCase {
	var c wheelCase
	c.Start = pick(t, "start", int64(0), 1, 1<<30-1, 1<<30, 1_700_000_000_000_000_000, 1<<62, 5_000_000_000)
	if rapid.Bool().Draw(t, "startnoise") {
		c.Start += rapid.Int64Range(0, 1<<31).Draw(t, "startoff")
	}
	nextID := 0
	c.Ops = rapid.SliceOfN(rapid.Custom(func(t *rapid.T) wheelOp {
		k := rapid.IntRange(0, 99).Draw(t, "kind")
		id := 0
		if nextID > 0 {
			id = rapid.IntRange(0, nextID-1).Draw(t, "id")
		}
		switch {
		case k < 40 || nextID == 0:
			nextID++
			op := wheelOp{Kind: "add", ID: nextID - 1, D: genWheelDur(t, "ttl")}
			if rapid.IntRange(0, 4).Draw(t, "behind") == 0 {
				op.Back = genWheelDur(t, "back")
			}
			return op
		case k < 48:
			return wheelOp{Kind: "del", ID: id}
		case k < 58:
			return wheelOp{Kind: "extend", ID: id, D: genWheelDur(t, "ext"), Res: rapid.Bool().Draw(t, "resched")}
		case k < 62:
			return wheelOp{Kind: "shorten", ID: id, D: genWheelDur(t, "short"), Res: true}
		case k < 70:
			return wheelOp{Kind: "replace", ID: id, D: genWheelDur(t, "ttl")}
		case k < 85 && nextID > 0:
			// to just before / at / just after an existing timer's deadline (resolved when the case runs)
			return wheelOp{Kind: "sweepto", ID: id, D: pick(t, "off", int64(-1), 0, 1, 2, -wheelTick, wheelTick-1, wheelTick, wheelTick+1, 2*wheelTick+1, 70*wheelTick)}
		default:
			adv := genWheelDur(t, "adv")
			if adv == math.MaxInt64 {
				adv = 0 // a sweep at an unchanged clock value
			}
			return wheelOp{Kind: "sweep", D: adv}
		}
	}), 4, 300).Draw(t, "ops")
	return c
}

func satAdd(a, b int64) int64 {
	if b > 0 && a > math.MaxInt64-b {
		return math.MaxInt64
	}
	return a + b
}

type wheelTimer struct {
	n       node.Node[int, int]
	addedAt int64 // wheel time at the harness's last Add
	sched   bool
	expired bool
}

func runWheel(c wheelCase) outcome {
	var o outcome
	mgr := node.NewManager[int, int](node.Config{WithExpiration: true})
	w := expiration.NewVariable[int, int](mgr)
	timers := map[int]*wheelTimer{}
	byNode := map[node.Node[int, int]]int{}
	now := int64(0) // wheel time (0 until the first sweep, as in a fresh cache)
	swept := false
	levels := map[int]bool{}
	nExpired, nSweeps, nCascade := 0, 0, 0
	fail := func(i int, f string, a ...any) outcome {
		o.Err = fmt.Errorf("op %d: "+f, append([]any{i}, a...)...)
		return o
	}
	clock := func() int64 {
		if !swept {
			return c.Start // writes before the first maintenance sample the real clock; the wheel still stands at 0
		}
		return now
	}
	for i, op := range c.Ops {
		switch op.Kind {
		case "add":
			at := clock()
			if op.Back > 0 {
				at = max(0, at-op.Back%(1<<40))
			}
			n := mgr.Create(op.ID, op.ID, satAdd(at, op.D), math.MaxInt64, 1)
			timers[op.ID] = &wheelTimer{n: n, addedAt: now, sched: true}
			byNode[n] = op.ID
			w.Add(n)
		case "del":
			tm := timers[op.ID]
			if tm == nil {
				continue
			}
			w.Delete(tm.n) // idempotent: also called for nodes that are no longer scheduled
			tm.sched = false
		case "extend", "shorten":
			tm := timers[op.ID]
			if tm == nil || !tm.sched || tm.n.ExpiresAt() <= clock() {
				continue // the cache never touches the deadline of an entry that has already expired
			}
			e := satAdd(clock(), op.D)
			if op.Kind == "extend" {
				e = max(e, tm.n.ExpiresAt())
			}
			tm.n.SetExpiresAt(e)
			if op.Res {
				// a delivered access: onAccess re-schedules
				w.Delete(tm.n)
				w.Add(tm.n)
				tm.addedAt = now
			}
		case "replace":
			tm := timers[op.ID]
			if tm == nil {
				continue
			}
			w.Delete(tm.n)
			n := mgr.Create(op.ID, op.ID, satAdd(clock(), op.D), math.MaxInt64, 1)
			delete(byNode, tm.n)
			timers[op.ID] = &wheelTimer{n: n, addedAt: now, sched: true}
			byNode[n] = op.ID
			w.Add(n)
		case "sweep", "sweepto":
			var T int64
			switch {
			case !swept:
				T = c.Start
				swept = true
			case op.Kind == "sweepto":
				T = now
				if tm := timers[op.ID]; tm != nil && tm.n.ExpiresAt() < math.MaxInt64-100*wheelTick {
					T = max(now, tm.n.ExpiresAt()+op.D)
				}
			default:
				T = satAdd(now, op.D)
			}
			before := map[int]int{} // id -> level before the sweep
			w.VerifWalk(func(level, _ int, n node.Node[int, int]) { before[byNode[n]] = level })
			var cbErr error
			w.DeleteExpired(T, func(n node.Node[int, int], at int64) {
				id, ok := byNode[n]
				tm := timers[id]
				switch {
				case !ok || tm == nil || tm.n != n:
					cbErr = fmt.Errorf("the wheel expired a node that is not a current timer (key %d)", n.Key())
				case !tm.sched:
					cbErr = fmt.Errorf("the wheel expired timer %d which had been deleted from it", id)
				case tm.expired:
					cbErr = fmt.Errorf("the wheel expired timer %d twice", id)
				case n.ExpiresAt() >= T:
					cbErr = fmt.Errorf("the wheel expired timer %d at %d although its deadline %d has not passed", id, T, n.ExpiresAt())
				case at != T:
					cbErr = fmt.Errorf("the wheel reported expiry time %d during DeleteExpired(%d)", at, T)
				}
				if tm != nil {
					tm.expired = true
					tm.sched = false
				}
				w.Delete(n) // evictNode does this
				nExpired++
			})
			if cbErr != nil {
				return fail(i, "sweep at %d: %v", T, cbErr)
			}
			now = T
			nSweeps++
			// structure and membership
			seen := map[int]int{}
			after := map[int]int{}
			probs := w.VerifWalk(func(level, _ int, n node.Node[int, int]) {
				id, ok := byNode[n]
				if !ok {
					id = -1 - n.Key()
				}
				seen[id]++
				after[id] = level
				levels[level] = true
			})
			if len(probs) > 0 {
				return fail(i, "sweep at %d: %v", T, probs)
			}
			for id, tm := range timers {
				if tm.sched && seen[id] != 1 {
					return fail(i, "sweep at %d: timer %d (deadline %d) is scheduled but linked %d times in the wheel", T, id, tm.n.ExpiresAt(), seen[id])
				}
				if !tm.sched && seen[id] != 0 {
					return fail(i, "sweep at %d: timer %d was removed but is still linked in the wheel", T, id)
				}
				if tm.sched {
					if l0, ok := before[id]; ok && after[id] < l0 {
						nCascade++
					}
					e := max(tm.n.ExpiresAt(), tm.addedAt)
					if e < T-wheelTick && T >= wheelTick {
						return fail(i, "sweep at %d: timer %d expired at %d (scheduled at wheel time %d), more than one tick (2^30 ns) ago, but it is still in the wheel (level %d)", T, id, tm.n.ExpiresAt(), tm.addedAt, after[id])
					}
				}
			}
			for id := range seen {
				if id < 0 {
					return fail(i, "sweep at %d: the wheel holds a node (key %d) that is not a current timer", T, -1-id)
				}
			}
		}
	}
	o.NonTrivial = nSweeps >= 2 && nExpired > 0 && len(levels) >= 2
	for l := range levels {
		o.Classes = append(o.Classes, fmt.Sprintf("level-%d-used", l))
	}
	if nCascade > 0 {
		o.Classes = append(o.Classes, "cascaded-to-lower-level")
	}
	if nExpired > 0 {
		o.Classes = append(o.Classes, "expired")
	}
	o.Sig = vh.Sig(fmt.Sprint(c))
	return o
}

func TestC13_WheelModel(t *testing.T) {
	propMain(t, propSpec[wheelCase]{
		Prop: "C13", Test: "WheelModel",
		Rule: "sequences (1-300 ops) on internal/expiration.Variable driven as the cache's maintenance drives it: timers added with deadlines on tick/span/wheel-turn boundaries of all five levels (1 ns .. never), some sampled before the wheel's current time, deleted, replaced, extended with or without re-scheduling (delivered vs dropped read), shortened with re-scheduling, and DeleteExpired at monotone clock values with advances from 0 to decades, starting from clock values 0 .. 2^62; " +
			"oracle after every sweep: only scheduled timers whose deadline has passed are expired, each once; no timer whose deadline and last scheduling both lie more than one tick before the sweep is still linked; the bucket lists are well formed and hold exactly the scheduled timers; non-trivial = >= 2 sweeps, >= 1 expiry and timers on >= 2 wheel levels",
		Gen: genWheel, Run: runWheel,
	})
}
