package props

import (
	"context"
	"errors"
	"fmt"
	"math/rand"
	"runtime"
	"sync"
	"sync/atomic"
	"testing"
	"time"

	"github.com/maypok86/otter/v2"
	"github.com/maypok86/otter/v2/internal/verifhook"
	"github.com/maypok86/otter/v2/verifharness/vh"
	"pgregory.net/rapid"
)

type linCase struct {
	Bound      int      `json:"bound"` // 0 unbounded, 1 MaximumSize
	Max        int      `json:"max,omitempty"`
	InitCap    int      `json:"init_cap,omitempty"`
	Exec       int      `json:"executor"` // 0 caller-runs, 1 goroutine per task, 2 default (Options.Executor nil)
	Goroutines int      `json:"goroutines"`
	OpsPerG    int      `json:"ops_per_goroutine"`
	HotKeys    int      `json:"hot_keys"`
	Filler     int      `json:"filler_keys"`
	Seed       int64    `json:"seed"`
	Noise      int      `json:"noise"`
	Procs      int      `json:"gomaxprocs"`
	History    []vh.HOp `json:"history,omitempty"` // filled for a failing case: the replay artefact
}

func genLinCase(t *rapid.T) linCase {
	c := linCase{
		Bound:      pick(t, "bound", 0, 1, 1),
		InitCap:    pick(t, "initcap", 0, 1, 1, 64),
		Exec:       pick(t, "exec", 0, 1, 2),
		Goroutines: rapid.IntRange(2, 8).Draw(t, "g"),
		OpsPerG:    rapid.IntRange(10, 60).Draw(t, "ops"),
		HotKeys:    rapid.IntRange(1, 3).Draw(t, "hot"),
		Filler:     pick(t, "filler", 0, 30, 600, 2500),
		Seed:       rapid.Int64().Draw(t, "seed"),
		Noise:      pick(t, "noise", 0, 1, 2),
		Procs:      pick(t, "procs", 16, 16, 4, 3, 6),
	}
	if c.Bound == 1 {
		c.Max = pick(t, "max", 1, 2, 4, 16, 2000)
	}
	return c
}

// recorder collects the history.
type recorder struct {
	clock atomic.Int64
	mu    sync.Mutex
	ops   []vh.HOp
	// the eviction in progress (evictions are serialized by the eviction lock)
	pendingEvict int // index into ops, -1 if none
}

func (r *recorder) now() int64 { return r.clock.Add(1) }

func (r *recorder) add(o vh.HOp) int {
	r.mu.Lock()
	r.ops = append(r.ops, o)
	i := len(r.ops) - 1
	r.mu.Unlock()
	return i
}

type linLoader struct {
	entry, exit func(k int) // hooks
	val         func(k int) (int, error)
}

func (l linLoader) Load(ctx context.Context, k int) (int, error) {
	l.entry(k)
	v, err := l.val(k)
	l.exit(k)
	return v, err
}
func (l linLoader) Reload(ctx context.Context, k int, old int) (int, error) { return l.Load(ctx, k) }

var errLin = errors.New("verif: load failed")
var errLinPanic = errors.New("verif: the function panics")

func runLinCase(c linCase) outcome {
	var o outcome
	if len(c.History) > 0 {
		// replay: re-check the saved history
		res, detail := vh.CheckHistory(c.History, 20*time.Second)
		if res == "illegal" {
			o.Err = errors.New(detail)
			if knownFor("C02")["KF-C09-write-window"] {
				if r2, _ := vh.CheckHistory(vh.RelaxWriteWindow(c.History), 20*time.Second); r2 == "ok" {
					o.Err = nil
					o.Known = append(o.Known, "KF-C09-write-window")
				}
			}
		}
		return o
	}
	if c.Procs > 0 {
		defer runtime.GOMAXPROCS(runtime.GOMAXPROCS(c.Procs))
	}
	rec := &recorder{pendingEvict: -1}
	var execWG sync.WaitGroup
	var fillerEvicted sync.Map // filler key -> value reported as evicted
	var fillerLost atomic.Pointer[string]
	opts := &otter.Options[int, int]{InitialCapacity: c.InitCap, Logger: &vh.RecLogger{}}
	if c.Bound == 1 {
		opts.MaximumSize = c.Max
	}
	switch c.Exec {
	case 0:
		opts.Executor = func(fn func()) { fn() }
	case 1:
		opts.Executor = func(fn func()) {
			execWG.Add(1)
			go func() { defer execWG.Done(); defer crashGuard("C02", "Linearizable", c); fn() }()
		}
	case 2:
		restore := otter.VerifSetDefaultExecutor(func(fn func()) {
			execWG.Add(1)
			go func() { defer execWG.Done(); defer crashGuard("C02", "Linearizable", c); fn() }()
		})
		defer restore()
	}
	opts.OnAtomicDeletion = func(e otter.DeletionEvent[int, int]) {
		if e.Cause != otter.CauseOverflow && e.Cause != otter.CauseExpiration {
			return
		}
		if e.Key >= 1000 {
			fillerEvicted.Store(e.Key, e.Value) // filler traffic is judged by its own sequential read-back, not by the history
			return
		}
		t := rec.now()
		rec.mu.Lock()
		rec.ops = append(rec.ops, vh.HOp{Kind: "evict", Key: e.Key, Val: e.Value, Client: 99, Call: t, Ret: -1})
		rec.pendingEvict = len(rec.ops) - 1
		rec.mu.Unlock()
	}
	opts.OnDeletion = func(e otter.DeletionEvent[int, int]) {}
	// hook handler: close the eviction interval right after the table removal, plus optional noise
	var noiseCtr atomic.Uint64
	verifhook.Set(func(id string) {
		if id == "evict.afterRemove" {
			rec.mu.Lock()
			if rec.pendingEvict >= 0 {
				rec.ops[rec.pendingEvict].Ret = rec.now()
				rec.pendingEvict = -1
			}
			rec.mu.Unlock()
			return
		}
		if c.Noise == 0 {
			return
		}
		x := noiseCtr.Add(1)*0x9e3779b97f4a7c15 ^ uint64(c.Seed)
		x ^= x >> 29
		// widen the two narrowest windows: a resizer between its decision and taking the resize flag, and a finished load
		// between the loader's return and the installing computation
		if (id == "hm.resize.beforeCAS" && x%2 == 0) || (id == "load.beforeInstall" && x%4 == 0) {
			time.Sleep(time.Duration(50+(x>>12)%400) * time.Microsecond)
			return
		}
		switch r := int(x % 1000); {
		case c.Noise == 2 && r < 6:
			time.Sleep(time.Duration(20+(x>>12)%200) * time.Microsecond)
		case r < 300:
			runtime.Gosched()
		}
	})
	defer verifhook.Set(nil)

	cache := otter.Must(opts)
	defer cache.StopAllGoroutines()

	var valCtr atomic.Int64
	newVal := func() int { return int(valCtr.Add(1)) }
	var tokCtr atomic.Int64

	// loader-produced values and the call interval of the Get that produced them
	type loadInfo struct {
		callStart, callEnd, exit int64
		tok                      int
		failed                   bool
	}
	var loadMu sync.Mutex
	loads := map[int]*loadInfo{} // by loaded value

	var wg sync.WaitGroup
	var stop atomic.Bool
	for g := 0; g < c.Goroutines; g++ {
		wg.Add(1)
		go func(g int) {
			defer wg.Done()
			rng := rand.New(rand.NewSource(c.Seed + int64(g)*104729))
			for i := 0; i < c.OpsPerG; i++ {
				k := rng.Intn(c.HotKeys)
				switch r := rng.Intn(100); {
				case r < 18:
					v := newVal()
					op := vh.HOp{Kind: "set", Key: k, Client: g, Val: v, Call: rec.now()}
					op.OutVal, op.OutOK = cache.Set(k, v)
					op.Ret = rec.now()
					rec.add(op)
				case r < 26:
					v := newVal()
					op := vh.HOp{Kind: "setifabsent", Key: k, Client: g, Val: v, Call: rec.now()}
					op.OutVal, op.OutOK = cache.SetIfAbsent(k, v)
					op.Ret = rec.now()
					rec.add(op)
				case r < 42:
					op := vh.HOp{Kind: "read", Key: k, Client: g, Call: rec.now()}
					if rng.Intn(2) == 0 {
						op.OutVal, op.OutOK = cache.GetIfPresent(k)
					} else {
						e, ok := cache.GetEntry(k)
						op.OutVal, op.OutOK = e.Value, ok
					}
					op.Ret = rec.now()
					rec.add(op)
				case r < 66:
					v := newVal()
					plan := rng.Intn(6) // 0,1 write; 2 invalidate; 3 cancel; 4 write-if-found-else-cancel; 5 the function panics
					variant := rng.Intn(3)
					op := vh.HOp{Kind: "compute", Key: k, Client: g, Val: v, Call: rec.now()}
					decide := func(found bool) otter.ComputeOp {
						switch plan {
						case 5:
							// a panicking function: the panic reaches the caller and the mapping stays as it was
							op.Cop = "panic"
							panic(errLinPanic)
						case 2:
							op.Cop = "invalidate"
							return otter.InvalidateOp
						case 3:
							op.Cop = "cancel"
							return otter.CancelOp
						case 4:
							if !found {
								op.Cop = "cancel"
								return otter.CancelOp
							}
						}
						op.Cop = "write"
						return otter.WriteOp
					}
					func() {
						defer func() {
							if r := recover(); r != nil && op.Cop != "panic" { // the cache wraps the function's panic value
								panic(r)
							}
						}()
						switch variant {
						case 0:
							op.OutVal, op.OutOK = cache.Compute(k, func(old int, found bool) (int, otter.ComputeOp) {
								op.Calls++
								op.SawOld, op.SawFound = old, found
								return v, decide(found)
							})
						case 1:
							op.OutVal, op.OutOK = cache.ComputeIfAbsent(k, func() (int, bool) {
								op.Calls++
								op.SawOld, op.SawFound = 0, false
								if plan == 3 {
									op.Cop = "cancel"
									return v, true
								}
								if plan == 5 {
									op.Cop = "panic"
									panic(errLinPanic)
								}
								op.Cop = "write"
								return v, false
							})
						case 2:
							op.OutVal, op.OutOK = cache.ComputeIfPresent(k, func(old int) (int, otter.ComputeOp) {
								op.Calls++
								op.SawOld, op.SawFound = old, true
								return v, decide(true)
							})
						}
					}()
					op.Ret = rec.now()
					if op.Cop == "panic" {
						if op.Calls != 1 {
							op.Kind = "compute-nocall"
							op.Note = "panicking function"
						} else {
							// the function saw (old, found) and panicked: an atomic read of that state which changes nothing
							op.Kind, op.OutVal, op.OutOK, op.Note = "read", op.SawOld, op.SawFound, "compute whose function panicked"
							if !op.SawFound {
								op.OutVal = 0
							}
						}
					} else if op.Calls == 0 {
						// the conditional forms returned without running the function: a plain read
						op.Kind = "read"
						op.Note = "conditional compute without callback"
						if variant == 0 {
							op.Note = "Compute did not run its function"
							op.Kind = "compute-nocall"
						}
					}
					rec.add(op)
				case r < 78:
					op := vh.HOp{Kind: "invalidate", Key: k, Client: g, Call: rec.now()}
					op.OutVal, op.OutOK = cache.Invalidate(k)
					op.Ret = rec.now()
					rec.add(op)
				default:
					// loader-backed Get
					fail := rng.Intn(6) == 0
					lpanic := fail && rng.Intn(3) == 0 // the loader panics: a failed load whose panic reaches the caller
					var entryT, exitT int64
					var loaded int
					invoked := false
					ld := linLoader{
						entry: func(int) { invoked = true; entryT = rec.now() },
						exit:  func(int) { exitT = rec.now() },
						val: func(int) (int, error) {
							loaded = newVal()
							if lpanic {
								exitT = rec.now()
								panic(errLinPanic)
							}
							if fail {
								return loaded, errLin
							}
							return loaded, nil
						},
					}
					call := rec.now()
					var v int
					var err error
					func() {
						defer func() {
							if r := recover(); r != nil {
								if !lpanic || !invoked {
									panic(r)
								}
								v, err = loaded, errLinPanic // the loading caller sees its loader's panic again
							}
						}()
						v, err = cache.Get(context.Background(), k, ld)
					}()
					ret := rec.now()
					if invoked {
						tok := int(tokCtr.Add(1))
						rec.add(vh.HOp{Kind: "miss", Key: k, Client: g, Call: call, Ret: entryT})
						rec.add(vh.HOp{Kind: "begin", Key: k, Client: g, Token: tok, Call: call, Ret: entryT})
						rec.add(vh.HOp{Kind: "finish", Key: k, Client: g, Token: tok, Val: loaded, OutErr: fail, Call: exitT, Ret: ret, MayDrop: true})
						loadMu.Lock()
						loads[loaded] = &loadInfo{call, ret, exitT, tok, fail}
						loadMu.Unlock()
						if (err != nil) != fail || v != loaded {
							rec.add(vh.HOp{Kind: "bad-get", Key: k, Client: g, Call: call, Ret: ret, Val: loaded, OutVal: v, OutErr: err != nil})
						}
					} else {
						rec.add(vh.HOp{Kind: "get-noload", Key: k, Client: g, Call: call, Ret: ret, OutVal: v, OutOK: err == nil, OutErr: err != nil})
					}
				}
				if c.Noise > 0 && rng.Intn(4) == 0 {
					runtime.Gosched()
				}
			}
		}(g)
	}
	// filler traffic: forces growth/shrink of the table and, in bounded caches, eviction of hot keys
	var growthsBefore, shrinksBefore int64
	growthsBefore, shrinksBefore = cache.VerifTableResizes()
	fillers := 0
	if c.Filler > 0 {
		fillers = 1
	}
	if c.Filler >= 600 {
		fillers = 2 + int(uint64(c.Seed)%2) // several goroutines can decide to resize the same table
	}
	for f := 0; f < fillers; f++ {
		wg.Add(1)
		go func(base int) {
			defer wg.Done()
			for wave := 0; wave < 3 && !stop.Load(); wave++ {
				for i := 0; i < c.Filler/fillers; i++ {
					cache.Set(base+i, wave*10_000_000+i)
				}
				// Every filler key has a single writer (this goroutine), so its history is sequential: a key that was
				// set and neither invalidated nor reported evicted must read back its value, whatever the table did meanwhile.
				for i := 0; i < c.Filler/fillers; i++ {
					want := wave*10_000_000 + i
					got, ok := cache.GetIfPresent(base + i)
					if ok && got == want {
						continue
					}
					if ev, was := fillerEvicted.Load(base + i); was && ev.(int) == want {
						continue
					}
					msg := fmt.Sprintf("key %d was set to %d by its only writer and neither invalidated nor reported evicted, yet GetIfPresent returns (%d,%v) (table growths so far: %v)", base+i, want, got, ok, func() int64 { g, _ := cache.VerifTableResizes(); return g }())
					fillerLost.CompareAndSwap(nil, &msg)
					break
				}
				for i := 0; i < c.Filler/fillers; i++ {
					cache.Invalidate(base + i)
				}
			}
		}(1000 + f*100000)
	}
	wg.Wait()
	stop.Store(true)
	execWG.Wait()
	cache.CleanUp()
	execWG.Wait()
	g1, s1 := cache.VerifTableResizes()

	// post-process the history
	rec.mu.Lock()
	ops := append([]vh.HOp(nil), rec.ops...)
	rec.mu.Unlock()
	end := rec.now()
	var hist []vh.HOp
	evictions, overlapping, joiners := 0, 0, 0
	for _, op := range ops {
		switch op.Kind {
		case "bad-get":
			o.Err = fmt.Errorf("Get(%d) ran its loader (value %d) but returned (%d, err=%v)", op.Key, op.Val, op.OutVal, op.OutErr)
			return o
		case "compute-nocall":
			o.Err = fmt.Errorf("Compute(%d) returned without running its function", op.Key)
			return o
		case "compute":
			if op.Calls != 1 {
				o.Err = fmt.Errorf("compute on key %d ran its function %d times", op.Key, op.Calls)
				return o
			}
			hist = append(hist, op)
		case "evict":
			evictions++
			if op.Ret < 0 {
				op.Ret = end
				op.Note = "no afterRemove stamp"
			}
			hist = append(hist, op)
		case "get-noload":
			// Either a cache hit or a waiter of somebody else's load.
			if op.OutErr {
				joiners++ // a failed load it joined: no constraint on the register
				continue
			}
			loadMu.Lock()
			li := loads[op.OutVal]
			loadMu.Unlock()
			if li != nil && li.callEnd > op.Call && li.callStart < op.Ret {
				// overlapped the loading call: it found the installed value or received it as a waiter; a waiter is released
				// only after the load's installing step, so operations that follow its return see the installed value
				joiners++
				hist = append(hist, vh.HOp{Kind: "joinhit", Key: op.Key, Client: op.Client, Call: max(op.Call, li.exit), Ret: op.Ret, OutVal: op.OutVal, OutOK: true, Token: li.tok})
				continue
			}
			hist = append(hist, vh.HOp{Kind: "read", Key: op.Key, Client: op.Client, Call: op.Call, Ret: op.Ret, OutVal: op.OutVal, OutOK: true, Note: "Get hit"})
		default:
			hist = append(hist, op)
		}
	}
	// count overlapping writers per key (non-triviality)
	byKey := map[int][]vh.HOp{}
	for _, op := range hist {
		byKey[op.Key] = append(byKey[op.Key], op)
	}
	for _, hk := range byKey {
		for i := 0; i < len(hk) && overlapping < 2; i++ {
			for j := i + 1; j < len(hk); j++ {
				if hk[i].Call <= hk[j].Ret && hk[j].Call <= hk[i].Ret && (hk[i].Kind != "read" || hk[j].Kind != "read") {
					overlapping++
					break
				}
			}
		}
	}
	if m := fillerLost.Load(); m != nil {
		o.Err = errors.New(*m)
		return o
	}
	res, detail := vh.CheckHistory(hist, 3*time.Second)
	switch res {
	case "unknown":
		o.Inconcl = true
		return o
	case "illegal":
		o.Err = errors.New(detail)
		if knownFor("C02")["KF-C09-write-window"] {
			// listed known finding: a load that registers while a write call to its key is in progress (after the
			// write dropped the in-flight call, before it published its value) survives that write and overwrites it.
			// Re-check with exactly that exemption; anything else is still a violation.
			r2, _ := vh.CheckHistory(vh.RelaxWriteWindow(hist), 3*time.Second)
			if r2 == "ok" {
				o.Err = nil
				o.Known = append(o.Known, "KF-C09-write-window")
			} else if r2 == "unknown" {
				o.Err = nil
				o.Inconcl = true
				return o
			}
		}
	}
	o.NonTrivial = overlapping >= 2
	if evictions > 0 {
		o.Classes = append(o.Classes, "hot-key-evicted")
	}
	if g1 > growthsBefore {
		o.Classes = append(o.Classes, "table-grew-during-run")
	}
	if s1 > shrinksBefore {
		o.Classes = append(o.Classes, "table-shrank-during-run")
	}
	if joiners > 0 {
		o.Classes = append(o.Classes, "load-joiner")
	}
	o.Classes = append(o.Classes, fmt.Sprintf("executor:%d", c.Exec))
	o.Sig = vh.Sig(fmt.Sprint(c.Bound, c.Max, c.Exec, c.Goroutines, c.OpsPerG, c.HotKeys, c.Filler, c.Seed))
	if o.Err != nil {
		// keep the history as the replay artefact (re-checkable without running anything)
		cc := c
		cc.History = hist
		lastLinFailure = &cc
	}
	return o
}

var lastLinFailure *linCase

func TestC02_Linearizable(t *testing.T) {
	propMain(t, propSpec[linCase]{
		Prop: "C02", Test: "Linearizable",
		Rule: "free-running programs generated by rapid: 2-8 goroutines x 10-60 operations (Set, SetIfAbsent, GetIfPresent/GetEntry, Compute/ComputeIfAbsent/ComputeIfPresent with write/invalidate/cancel decisions, Invalidate, loader-backed Get with unique loaded values and failing loads) on 1-3 hot keys, " +
			"unbounded or MaximumSize 1..2000, executors caller-runs / goroutine / default, GOMAXPROCS 3..16, optional yields and sleeps at the verif hook points, plus filler traffic of up to 2500 keys in insert/remove waves from InitialCapacity 0/1/64 (table growth and shrink, eviction of hot keys); " +
			"every call/return is stamped with one atomic counter, compute callbacks record what they saw, every Overflow removal is an operation Evict(k,v) spanning [atomic handler, end of the table removal]; " +
			"oracle: per-key linearizability decided by porcupine against a register model {present,value,load token} (Compute = atomic read-modify-write whose pre-state equals what the callback saw; a loading Get = Miss + Begin in [call, loader entry] and Finish in [loader exit, return] that installs iff no write/invalidate/eviction cleared its token); " +
			"each callback ran exactly once; every filler key has a single writer, which reads its keys back after each insertion wave: a key that was set and neither invalidated nor reported evicted must return its value whatever the table did meanwhile; waiters of somebody else's load are constrained to return after that load's installing step; non-trivial = a key history with >= 2 pairs of overlapping operations of which one writes; porcupine time-outs (3 s) are inconclusive",
		Assumptions: []string{"schedules are sampled by the Go runtime, not enumerated", "a waiter of another call's load may legitimately receive a value that never enters the cache (the load was superseded); it is only required to return after the load's installing step"},
		Gen:         genLinCase,
		Run:         runLinCase,
		Enrich: func(c linCase) linCase {
			if lastLinFailure != nil {
				return *lastLinFailure
			}
			return c
		},
	})
}
