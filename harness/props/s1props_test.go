package props

import (
	"testing"

	"github.com/maypok86/otter/v2/verifharness/vh"
)

var commonAssumptions = []string{
	"the Go runtime and sync primitives are trusted",
	"values are unique per case so that every event names one write",
	"eviction victims depend on a random hash seed inside the cache: the oracle never predicts a victim, it reconciles reported removals",
}

func both() []int { return []int{vh.ExecInline, vh.ExecDeferred} }

func with(m map[string]int, kv ...any) map[string]int {
	out := map[string]int{}
	for k, v := range m {
		out[k] = v
	}
	for i := 0; i+1 < len(kv); i += 2 {
		out[kv[i].(string)] = kv[i+1].(int)
	}
	return out
}

// ---- C03 ---------------------------------------------------------------

func TestC03_S1Visibility(t *testing.T) {
	s1Main(t, s1Spec{
		Prop: "C03", Test: "S1Visibility",
		Rule: "scripts over expiring configurations only, TTLs 1..1000ns and advances 1..2000ns (far below the 2^30ns sweep tick, so expired entries stay in the table), " +
			"inline and deferred executors; every operation's result on an expired-unswept key must equal the result on an absent key, the key space is re-read after every step, " +
			"iterators/Hottest/Coldest/save-load must skip expired entries; non-trivial = at least one non-read operation applied to an expired-unswept key",
		Profile: &vh.Profile{Name: "c03", NeedExpiry: true, TinyTTL: true, Executors: both(), MinLen: 1, MaxLen: 80, MaxKeys: 4,
			Ops: with(vh.BaseOps(), "advance", 14, "advanceto", 6, "saveload", 2, "iter", 5, "cleanup", 1)},
		Facets:       vh.FVis | vh.FRet | vh.FContents | vh.FIter | vh.FPanic | vh.FLoad | vh.FRefresh,
		FinalQuiesce: true,
		NonTrivial:   func(r *vh.Runner) bool { return r.St.WritesOnExpired > 0 },
		Classes: func(r *vh.Runner) []string {
			var c []string
			if r.St.WritesOnExpired > 0 {
				c = append(c, "write-on-expired-unswept")
			}
			if r.St.OpsOnExpired > r.St.WritesOnExpired {
				c = append(c, "read-on-expired-unswept")
			}
			if r.St.SaveLoads > 0 {
				c = append(c, "saveload")
			}
			return c
		},
		Assumptions: commonAssumptions,
	})
}

// ---- C07 ---------------------------------------------------------------

func TestC07_S1Justified(t *testing.T) { s1Main(t, c07Spec()) }

func c07Spec() s1Spec {
	return s1Spec{
		Prop: "C07", Test: "S1Justified",
		Rule: "scripts with an inline executor; every reported Overflow must find the model's total weight (victim included) above the current maximum, or the victim alone heavier than it, " +
			"never a zero-weight victim, never in an unbounded cache; every reported Expiration must find the model deadline <= clock; " +
			"non-trivial = the model total crossed the maximum at least once, or >= 20 operations with >= 3 weight-changing updates without ever crossing it",
		Profile: &vh.Profile{Name: "c07", Executors: []int{vh.ExecInline}, BigWeights: true, MinLen: 1, MaxLen: 120, MaxKeys: 10,
			Ops: with(vh.BaseOps(), "set", 20, "setmaximum", 4, "compute", 8, "cleanup", 3, "getifpresent", 10, "readburst", 3)}, // read bursts: a deadline extended by a read whose buffer event is dropped
		Facets: vh.FJustify | vh.FPanic,
		NonTrivial: func(r *vh.Runner) bool {
			return r.St.CrossedMaximum || (r.St.Ops >= 20 && r.St.WeightChanges >= 3)
		},
		Classes: func(r *vh.Runner) []string {
			var c []string
			if r.St.CrossedMaximum {
				c = append(c, "crossed-maximum")
			} else if r.Cfg.Bound != vh.BoundNone {
				c = append(c, "never-crossed")
			}
			if r.St.AutoOverflow > 0 {
				c = append(c, "overflow-reported")
			}
			if r.St.AutoExpiration > 0 {
				c = append(c, "expiration-reported")
			}
			if r.St.LoweredMaximum > 0 {
				c = append(c, "lowered-maximum")
			}
			return c
		},
		Assumptions: commonAssumptions,
	}
}

// ---- C10 ---------------------------------------------------------------

func TestC10_S1Loads(t *testing.T) {
	s1Main(t, s1Spec{
		Prop: "C10", Test: "S1Loads",
		Rule: "scripts dominated by Get/BulkGet with generated loader outcomes (value, error, ErrNotFound plain and wrapped, panic; bulk: full, partial, extra, partial+extra, empty map, nil map, error, error+partial map, panic) " +
			"over contents with hits, misses, expired-unswept and refresh-due entries and key lists with duplicates; results, loader argument lists and the cache contents afterwards are compared with the model; " +
			"non-trivial = a bulk call mixing >=1 hit and >=1 miss with a partial or extra loader result, or >= 3 single loads with >= 2 outcome kinds",
		Profile: &vh.Profile{Name: "c10", Executors: both(), MinLen: 1, MaxLen: 60, MaxKeys: 6,
			Ops: with(vh.BaseOps(), "get", 20, "bulkget", 20, "set", 8, "advance", 8, "invalidate", 4)},
		Facets:       vh.FLoad | vh.FContents | vh.FPanic,
		FinalQuiesce: true,
		NonTrivial:   func(r *vh.Runner) bool { return r.St.BulkMixed > 0 || r.St.Loads >= 3 },
		Classes: func(r *vh.Runner) []string {
			var c []string
			if r.St.BulkMixed > 0 {
				c = append(c, "bulk-mixed-hit-miss-partial")
			}
			if r.St.Loads > 0 {
				c = append(c, "loads")
			}
			return c
		},
		Assumptions: commonAssumptions,
	})
}

// ---- C11 ---------------------------------------------------------------

func TestC11_S1Refresh(t *testing.T) {
	s1Main(t, s1Spec{
		Prop: "C11", Test: "S1Refresh",
		Rule: "refresh-enabled configurations (with and without expiry, inline and deferred executors); reads and writes around the refresh deadline (advance to deadline -1/0/+1), reload outcomes value/error/ErrNotFound, " +
			"Refresh/BulkRefresh on live, absent and expired keys, SetRefreshableAfter; oracle: fresh reads invoke no loader, a due read returns the old value and submits exactly one reload with the old value, " +
			"success replaces and recomputes the refresh time, failure leaves value and expiry, not-found removes, each Refresh call delivers exactly one result, nil channel without refresh; a snapshot loaded into a fresh cache keeps future refresh times and leaves entries that were due for refresh due; " +
			"non-trivial = >= 1 due read and >= 1 reload that is not a plain success",
		Profile: &vh.Profile{Name: "c11", NeedRefresh: true, TinyRefresh: true, LongExpiry: true, ExtremeDur: true, Executors: both(), MinLen: 1, MaxLen: 80, MaxKeys: 4,
			Ops: with(vh.BaseOps(), "get", 24, "bulkget", 8, "refresh", 8, "bulkrefresh", 5, "advanceto", 14, "advance", 8, "setrefreshableafter", 5, "runtasks", 10, "saveload", 2)},
		Facets:       vh.FRefresh | vh.FContents | vh.FDeadline | vh.FPanic,
		FinalQuiesce: true,
		NonTrivial:   func(r *vh.Runner) bool { return r.St.DueReads > 0 && r.St.ReloadNotSuccess > 0 },
		Classes: func(r *vh.Runner) []string {
			var c []string
			if r.St.DueReads > 0 {
				c = append(c, "due-read")
			}
			if r.St.ReloadNotSuccess > 0 {
				c = append(c, "reload-not-success")
			}
			if r.St.Reloads > 0 {
				c = append(c, "reload")
			}
			return c
		},
		Assumptions: commonAssumptions,
	})
}

func TestC11_S1NoRefresh(t *testing.T) {
	s1Main(t, s1Spec{
		Prop: "C11", Test: "S1NoRefresh",
		Rule:         "configurations without a refresh calculator: Refresh/BulkRefresh must return a nil channel and invoke no loader; non-trivial = at least one Refresh or BulkRefresh call",
		Profile:      &vh.Profile{Name: "c11n", NoRefresh: true, Executors: both(), MinLen: 1, MaxLen: 30, MaxKeys: 4, Ops: with(vh.BaseOps(), "refresh", 10, "bulkrefresh", 10)},
		Facets:       vh.FRefresh | vh.FPanic,
		FinalQuiesce: true,
		NonTrivial: func(r *vh.Runner) bool {
			for _, k := range r.St.Kinds {
				if k == "refresh" || k == "bulkrefresh" {
					return true
				}
			}
			return false
		},
		Assumptions: commonAssumptions,
	})
}

// ---- C09 on S1: writes between the submission of a reload and its (late) execution ----------------------

func TestC09_S1LateReloads(t *testing.T) {
	s1Main(t, s1Spec{
		Prop: "C09", Test: "S1LateReloads",
		Rule: "refresh-enabled configurations with a queueing executor: Refresh/BulkRefresh calls and refresh-due Get/BulkGet reads only submit the reload; explicit writes, computes, invalidations, expiry (clock advances) and further reads happen before RunTasks executes it; " +
			"oracle after every step: a reload (or the load a Refresh performs for an absent key) whose key was written, computed, invalidated or removed since it was requested hands its result to the caller's channel but leaves the cache contents as the model has them; an unsuperseded one is installed; " +
			"non-trivial = at least one reload or load result was superseded",
		Profile: &vh.Profile{Name: "c09late", NeedRefresh: true, TinyRefresh: true, Executors: []int{vh.ExecDeferred}, MinLen: 2, MaxLen: 50, MaxKeys: 3,
			Ops: with(vh.BaseOps(), "refresh", 14, "bulkrefresh", 8, "get", 10, "bulkget", 5, "set", 12, "invalidate", 8, "compute", 6, "setifabsent", 3, "runtasks", 12, "advanceto", 6, "advance", 6, "invalidateall", 1)},
		Facets:       vh.FContents | vh.FLoad | vh.FRefresh | vh.FPanic,
		FinalQuiesce: true,
		NonTrivial:   func(r *vh.Runner) bool { return r.St.SupersededRefresh > 0 },
		Classes: func(r *vh.Runner) []string {
			var c []string
			if r.St.SupersededRefresh > 0 {
				c = append(c, "superseded-load-or-reload")
			}
			if r.St.Reloads > 0 {
				c = append(c, "reload")
			}
			return c
		},
		Assumptions: commonAssumptions,
	})
}

// ---- C12 ---------------------------------------------------------------

func TestC12_S1Deadlines(t *testing.T) {
	s1Main(t, s1Spec{
		Prop: "C12", Test: "S1Deadlines",
		Rule: "expiring and/or refreshing configurations with all calculator kinds (creation-only, write-reset, access-reset, table-driven custom), durations from 1ns to MaxInt64 with point masses at MaxInt64 and MaxInt64-now(+-1), " +
			"clock origins up to 2^62, SetExpiresAfter/SetRefreshableAfter overrides, writes over live and over expired-unswept entries; after every step ExpiresAtNano/RefreshableAtNano of every live key must equal op time + returned duration " +
			"(or be 'effectively never' when the sum overflows) and visibility must flip exactly at the deadline; non-trivial = a deadline whose computation overflows, or a deadline boundary probed with advance-to-deadline(-1/0/+1)",
		Profile: &vh.Profile{Name: "c12", Executors: []int{vh.ExecInline}, ExtremeDur: true, WideTTL: true, MinLen: 1, MaxLen: 60, MaxKeys: 4,
			Ops: with(vh.BaseOps(), "advanceto", 14, "setexpiresafter", 8, "setrefreshableafter", 5, "getentry", 8, "iter", 1, "bulkget", 2, "bulkrefresh", 1)},
		Facets:     vh.FDeadline | vh.FContents | vh.FVis | vh.FPanic,
		NonTrivial: func(r *vh.Runner) bool { return r.St.OverflowDeadline > 0 || r.St.BoundaryProbes > 0 },
		Classes: func(r *vh.Runner) []string {
			var c []string
			if r.St.OverflowDeadline > 0 {
				c = append(c, "overflowing-deadline")
			}
			if r.St.BoundaryProbes > 0 {
				c = append(c, "boundary-probe")
			}
			for h := range r.St.HooksSeen {
				c = append(c, "hook:"+h)
			}
			return c
		},
		Assumptions: commonAssumptions,
	})
}

// ---- C13 ---------------------------------------------------------------

func TestC13_S1Sweep(t *testing.T) {
	s1Main(t, s1Spec{
		Prop: "C13", Test: "S1Sweep",
		Rule: "expiring configurations with TTLs from 1ns to years (all five wheel levels), deadline extensions, invalidations, monotone advances from 1ns to 100 years including multi-revolution jumps, CleanUp at arbitrary points, inline and deferred executors; " +
			"at each CleanUp at time T every model entry with deadline + 2^30ns < T whose write happened before T - 2^30ns must already have been reported (Expiration) and no longer be counted by EstimatedSize; " +
			"non-trivial = a sweep check with >= 1 obligation after a jump > 64 ticks or with TTLs above the first wheel level",
		Profile: &vh.Profile{Name: "c13", NeedExpiry: true, WideTTL: true, OnlyExtend: true, Executors: both(), MinLen: 1, MaxLen: 80, MaxKeys: 8,
			Ops: map[string]int{"set": 20, "setifabsent": 3, "getifpresent": 5, "compute": 4, "invalidate": 3, "cleanup": 14, "advance": 22, "advanceto": 4,
				"setexpiresafter": 3, "runtasks": 4, "get": 3}},
		Facets:       vh.FSweep | vh.FContents | vh.FJustify | vh.FPanic,
		FinalQuiesce: true,
		NonTrivial:   func(r *vh.Runner) bool { return r.St.SweepChecks > 0 && (r.St.BigJumps > 0 || r.St.AutoExpiration > 0) },
		Classes: func(r *vh.Runner) []string {
			var c []string
			if r.St.BigJumps > 0 {
				c = append(c, "jump>64ticks")
			}
			if r.St.AutoExpiration > 0 {
				c = append(c, "swept")
			}
			if r.St.SweepChecks > 0 {
				c = append(c, "sweep-check")
			}
			return c
		},
		Assumptions: append([]string{"reads/SetExpiresAfter that shorten a deadline exclude that entry from the obligation (the statement's proviso)"}, commonAssumptions...),
	})
}

// ---- C19 ---------------------------------------------------------------

func TestC19_S1SaveLoad(t *testing.T) {
	s1Main(t, s1Spec{
		Prop: "C19", Test: "S1SaveLoad",
		Rule: "a source cache built by a generated script over any layout is saved with SaveCacheTo; the clock is moved by a generated offset (0, sub-TTL, exactly a saved deadline, beyond deadlines) and the stream is loaded into a fresh cache of the same configuration or a smaller/larger maximum; " +
			"loaded keys must be a subset of the source entries live at load time with equal value and ExpiresAtNano, RefreshableAtNano equal when in the future else due; everything loaded when the live weight fits, otherwise the target stays within its bound; " +
			"non-trivial = >=1 entry expired between save and load and >=1 survivor with a finite deadline, or a bounded target smaller than the saved weight",
		Profile: &vh.Profile{Name: "c19", ExtremeDur: true, BigWeights: true, Executors: []int{vh.ExecInline}, MinLen: 2, MaxLen: 40, MaxKeys: 8,
			Ops: with(vh.BaseOps(), "saveload", 8, "set", 24, "advance", 10, "advanceto", 3, "get", 3, "bulkget", 1, "refresh", 1, "bulkrefresh", 1, "invalidateall", 0)},
		Facets: vh.FRet | vh.FVis | vh.FPanic,
		NonTrivial: func(r *vh.Runner) bool {
			return r.St.SaveLoadSurvivor > 0 || (r.St.SaveLoads > 0 && r.Cfg.Bound != vh.BoundNone)
		},
		Classes: func(r *vh.Runner) []string {
			var c []string
			if r.St.SaveLoads > 0 {
				c = append(c, "saveload")
			}
			if r.St.SaveLoadExpired > 0 {
				c = append(c, "expired-between-save-and-load")
			}
			if r.St.SaveLoadSurvivor > 0 {
				c = append(c, "expired-and-survivor")
			}
			return c
		},
		Assumptions: commonAssumptions,
	})
}

// ---- C20 ---------------------------------------------------------------

func TestC20_S1Stats(t *testing.T) { s1Main(t, c20Spec()) }

func c20Spec() s1Spec {
	return s1Spec{
		Prop: "C20", Test: "S1Stats",
		Rule: "scripts with a stats.Counter attached; after every action the snapshot must equal the harness tally: one hit or miss per counting lookup (hit iff the model held a live entry), one per distinct BulkGet key, none for quiet reads/Refresh/SetIfAbsent/Set/Invalidate, " +
			"load successes + failures == loader invocations, #Overflow events <= evictions <= #Overflow + #Expiration events (weights likewise), counters monotone; " +
			"non-trivial = >= 1 lookup on an expired-unswept key or a bulk call with duplicates/mixed hits, and >= 10 counted lookups",
		Profile: &vh.Profile{Name: "c20", Stats: true, BigWeights: true, Executors: both(), MinLen: 1, MaxLen: 80, MaxKeys: 6,
			Ops: with(vh.BaseOps(), "get", 10, "bulkget", 10, "getifpresent", 10, "getentry", 6, "computeifabsent", 6, "computeifpresent", 6, "compute", 6)},
		Facets:       vh.FStats | vh.FPanic,
		FinalQuiesce: true,
		NonTrivial:   func(r *vh.Runner) bool { return r.St.StatsChecks >= 10 && (r.St.OpsOnExpired > 0 || r.St.Loads > 0) },
		Classes: func(r *vh.Runner) []string {
			var c []string
			if r.St.OpsOnExpired > 0 {
				c = append(c, "lookup-on-expired-unswept")
			}
			if r.St.Loads > 0 {
				c = append(c, "loads")
			}
			if r.St.AutoOverflow > 0 {
				c = append(c, "evictions")
			}
			return c
		},
		Assumptions: commonAssumptions,
	}
}

// ---- C04 / C05 / C06 on S1 (late maintenance as data) --------------------

func quiesceProfile(name string) *vh.Profile {
	return &vh.Profile{Name: name, Executors: both(), MinLen: 1, MaxLen: 100, MaxKeys: 10, ExtremeDur: true, BigWeights: true, // incl. "never expires" deadlines (MaxInt64) that are shortened later
		Ops: with(vh.BaseOps(), "set", 24, "quiesce", 3, "runtasks", 8, "setmaximum", 3, "invalidate", 6, "compute", 8, "iter", 3)}
}

func TestC04_S1Bound(t *testing.T) { s1Main(t, c04Spec()) }

func c04Spec() s1Spec {
	p := quiesceProfile("c04")
	p.NeedBound = true
	return s1Spec{
		Prop: "C04", Test: "S1Bound",
		Rule: "bounded configurations (MaximumSize / MaximumWeight with weight tables containing 0, 1..8 and > maximum), inline and deferred executors (late maintenance is a script action), inserts, weight-changing updates, reads, invalidations, SetMaximum incl. 0 and below the current weight; " +
			"at every quiesce action and at the end (all queued tasks run, CleanUp): sum of Entry.Weight over All() and over Coldest() <= GetMaximum(), WeightedSize() <= GetMaximum(), no present entry heavier than the maximum, zero-weight entries never reported Overflow; " +
			"non-trivial = total inserted weight exceeded the maximum and there was >= 1 weight-changing update or lowering SetMaximum",
		Profile: p, Facets: vh.FBound | vh.FJustify | vh.FPanic, FinalQuiesce: true,
		NonTrivial: func(r *vh.Runner) bool {
			return r.St.CrossedMaximum && (r.St.WeightChanges > 0 || r.St.LoweredMaximum > 0)
		},
		Classes: func(r *vh.Runner) []string {
			var c []string
			if r.St.CrossedMaximum {
				c = append(c, "crossed-maximum")
			}
			if r.St.LoweredMaximum > 0 {
				c = append(c, "lowered-maximum")
			}
			if r.St.WeightChanges > 0 {
				c = append(c, "weight-change")
			}
			if r.St.Bursts > 0 {
				c = append(c, "write-buffer-filled")
			}
			return c
		},
		Assumptions: commonAssumptions,
	}
}

func TestC05_S1Bookkeeping(t *testing.T) { s1Main(t, c05Spec()) }

func c05Spec() s1Spec {
	return s1Spec{
		Prop: "C05", Test: "S1Bookkeeping",
		Rule: "all bound/expiry combinations, inline and deferred executors; at every quiesce action and at the end: WeightedSize()==sum of weights in the table, EstimatedSize()==entries written and not reported removed, set(Coldest)==set(All)==set(Hottest) each once (bounded caches), " +
			"and the verif audit under the eviction lock: every table node alive and linked in exactly one deque matching its queue type and in exactly one timer-wheel bucket, deques well formed, per-queue weight sums equal the counters, write buffer empty; " +
			"non-trivial = >= 2 writes to one key between two maintenance runs, or a replacement/invalidation of a value whose add event was still unprocessed",
		Profile: quiesceProfile("c05"), Facets: vh.FBook | vh.FPanic, FinalQuiesce: true,
		NonTrivial: func(r *vh.Runner) bool { return r.St.MultiWriteBefore > 0 || r.St.PendingAddGone > 0 },
		Classes: func(r *vh.Runner) []string {
			var c []string
			if r.St.MultiWriteBefore > 0 {
				c = append(c, "multi-write-before-maintenance")
			}
			if r.St.PendingAddGone > 0 {
				c = append(c, "removed-with-pending-add")
			}
			return c
		},
		Assumptions: commonAssumptions,
	}
}

func TestC06_S1Events(t *testing.T) { s1Main(t, c06Spec()) }

func c06Spec() s1Spec {
	return s1Spec{
		Prop: "C06", Test: "S1Events",
		Rule: "all 12 layouts (incl. the no-maintenance fast path), inline and deferred executors; ledger oracle: every value that stops being current is delivered exactly once to OnAtomicDeletion (during the operation) and exactly once to OnDeletion (by quiescence) with its key, value and the model's cause " +
			"(Replacement/Invalidation, Expiration when the deadline had passed, Overflow/Expiration for automatic removals of the current value); values still present and values never installed are never reported; " +
			"non-trivial = >= 1 replacement or invalidation of a value whose add event was still unprocessed, or an InvalidateAll with pending events, or >= 5 reported removals of >= 2 causes",
		Profile: quiesceProfile("c06"), Facets: vh.FEvents | vh.FPanic, FinalQuiesce: true,
		NonTrivial: func(r *vh.Runner) bool {
			return r.St.PendingAddGone > 0 || (r.St.AutoOverflow+r.St.AutoExpiration > 0 && r.St.Ops >= 10)
		},
		Classes: func(r *vh.Runner) []string {
			var c []string
			if r.St.PendingAddGone > 0 {
				c = append(c, "removed-with-pending-add")
			}
			if r.St.AutoOverflow > 0 {
				c = append(c, "overflow")
			}
			if r.St.AutoExpiration > 0 {
				c = append(c, "expiration")
			}
			return c
		},
		Assumptions: commonAssumptions,
	}
}

// ---- write buffer full: the caller-runs fallback (deferred executor, bursts of > 2048 writes) -------------

func burstProfile(name string) *vh.Profile {
	return &vh.Profile{Name: name, Executors: []int{vh.ExecDeferred}, MinLen: 1, MaxLen: 10, MaxKeys: 6,
		Ops: map[string]int{"burst": 6, "set": 6, "invalidate": 2, "compute": 2, "runtasks": 3, "quiesce": 2, "getifpresent": 2, "setmaximum": 1, "iter": 1, "invalidateall": 2}}
}

func burstSpec(prop, test string, facets vh.Facet, needBound bool) s1Spec {
	p := burstProfile(test)
	p.NeedBound = needBound
	return s1Spec{
		Prop: prop, Test: test,
		Rule: "short scripts (1-10 actions) with a queueing executor in which 'burst' actions issue 2050-2300 writes over 40-100 keys without letting the executor run, so the write buffer (2048 events on this machine) fills up and writers fall back to caller-runs maintenance; InvalidateAll over more than 1024 entries (its one-by-one tail once the write buffer is half full); " +
			"the model is reconciled write by write; at every quiesce action and at the end the quiescence oracles of the property are checked (bound / bookkeeping incl. the structural audit / exactly-once ledger); non-trivial = at least one burst",
		Profile: p, Facets: facets | vh.FPanic, FinalQuiesce: true,
		NonTrivial: func(r *vh.Runner) bool { return r.St.Bursts > 0 },
		Classes: func(r *vh.Runner) []string {
			if r.St.Bursts > 0 {
				return []string{"write-buffer-filled"}
			}
			return nil
		},
		Assumptions: commonAssumptions,
	}
}

func TestC04_S1Burst(t *testing.T) {
	s1Main(t, burstSpec("C04", "S1Burst", vh.FBound|vh.FJustify, true))
}
func TestC05_S1Burst(t *testing.T) { s1Main(t, burstSpec("C05", "S1Burst", vh.FBook, false)) }
func TestC06_S1Burst(t *testing.T) { s1Main(t, burstSpec("C06", "S1Burst", vh.FEvents, false)) }

// C16, cache-level clause ("no cache write is forgotten by the eviction and expiration policies"): the burst
// scripts make writers hit a full write buffer, so the refused-offer fallback carries the event itself.
func TestC16_S1Burst(t *testing.T) {
	s1Main(t, burstSpec("C16", "S1Burst", vh.FBook|vh.FEvents|vh.FBound|vh.FOrder, false))
}

// ---- C17, cache-level clause: dropping reads never changes what an operation returns ---------------------

func TestC17_S1ReadBursts(t *testing.T) {
	s1Main(t, s1Spec{
		Prop: "C17", Test: "S1ReadBursts",
		Rule: "model-conformance scripts on bounded and/or expiring caches with a queueing executor in which 'readburst' actions issue 17-120 reads between two drains (the 16-slot read buffer saturates and further reads are dropped), mixed with writes, clock advances, RunTasks and CleanUp; " +
			"every read of a burst and the whole key space after every step are compared with the reference model (dropped reads may only influence which entry is evicted later, which the model reconciles through the reported events); non-trivial = a burst that left the read buffer full",
		Profile: &vh.Profile{Name: "c17", Executors: []int{vh.ExecDeferred, vh.ExecInline}, MinLen: 1, MaxLen: 60, MaxKeys: 8,
			Ops: map[string]int{"readburst": 10, "set": 10, "getifpresent": 4, "getentry": 2, "invalidate": 2, "compute": 3, "advance": 4, "runtasks": 4, "cleanup": 2, "iter": 1, "setifabsent": 2}},
		Facets:       vh.FRet | vh.FContents | vh.FVis | vh.FBook | vh.FPanic,
		FinalQuiesce: true,
		NonTrivial:   func(r *vh.Runner) bool { return r.St.ReadBufferSaturated > 0 },
		Classes: func(r *vh.Runner) []string {
			var c []string
			if r.St.ReadBursts > 0 {
				c = append(c, "read-burst")
			}
			if r.St.ReadBufferSaturated > 0 {
				c = append(c, "read-buffer-full")
			}
			return c
		},
		Assumptions: commonAssumptions,
	})
}
