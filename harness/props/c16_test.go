package props

import (
	"fmt"
	"runtime"
	"sync"
	"sync/atomic"
	"testing"
	"time"

	"github.com/maypok86/otter/v2/internal/deque/queue"
	"github.com/maypok86/otter/v2/internal/xmath"
	"github.com/maypok86/otter/v2/verifharness/vh"
	"pgregory.net/rapid"
)

// ---- sequential model ------------------------------------------------------

type mpscSeqCase struct {
	Init uint32 `json:"init"`
	Max  uint32 `json:"max"`
	Ops  []int  `json:"ops"` // >0: that many pushes, <0: that many pops, 0: size/empty probe
}

type qItem struct {
	pid int
	seq int
}

func genMPSCSeq(t *rapid.T) mpscSeqCase {
	var c mpscSeqCase
	c.Max = uint32(rapid.IntRange(4, 512).Draw(t, "max"))
	maxInit := int(xmath.RoundUpPowerOf2(c.Max))
	if maxInit > 64 {
		maxInit = 64
	}
	c.Init = uint32(rapid.IntRange(2, maxInit).Draw(t, "init"))
	if xmath.RoundUpPowerOf2(c.Init) > xmath.RoundUpPowerOf2(c.Max) {
		c.Init = 2
	}
	c.Ops = rapid.SliceOfN(rapid.Custom(func(t *rapid.T) int {
		switch rapid.IntRange(0, 9).Draw(t, "k") {
		case 0:
			return 0
		case 1, 2, 3, 4:
			return rapid.IntRange(1, 70).Draw(t, "push")
		case 5:
			return rapid.IntRange(100, 600).Draw(t, "pushmany")
		case 6:
			return -rapid.IntRange(100, 600).Draw(t, "popmany")
		default:
			return -rapid.IntRange(1, 70).Draw(t, "pop")
		}
	}), 1, 60).Draw(t, "ops")
	return c
}

func runMPSCSeq(c mpscSeqCase) outcome {
	var o outcome
	q := queue.NewMPSC[qItem](c.Init, c.Max)
	capacity := int(xmath.RoundUpPowerOf2(c.Max))
	var model []*qItem
	next := 0
	refusals, resized, wraps := 0, false, 0
	pushed := 0
	for i, op := range c.Ops {
		switch {
		case op > 0:
			for j := 0; j < op; j++ {
				it := &qItem{0, next}
				ok := q.TryPush(it)
				want := len(model) < capacity
				if ok != want {
					o.Err = fmt.Errorf("op %d: TryPush with %d of %d slots used returned %v", i, len(model), capacity, ok)
					return o
				}
				if ok {
					model = append(model, it)
					next++
					pushed++
				} else {
					refusals++
				}
			}
		case op < 0:
			for j := 0; j < -op; j++ {
				got := q.TryPop()
				if len(model) == 0 {
					if got != nil {
						o.Err = fmt.Errorf("op %d: TryPop on an empty queue returned %+v", i, *got)
						return o
					}
					continue
				}
				if got != model[0] {
					o.Err = fmt.Errorf("op %d: TryPop returned %v, the oldest accepted event is %+v", i, got, *model[0])
					return o
				}
				model = model[1:]
				wraps++
			}
		}
		if sz := int(q.Size()); sz != len(model) {
			o.Err = fmt.Errorf("op %d: Size()=%d, model holds %d", i, sz, len(model))
			return o
		}
		if q.IsEmpty() != (len(model) == 0) {
			o.Err = fmt.Errorf("op %d: IsEmpty()=%v, model holds %d", i, q.IsEmpty(), len(model))
			return o
		}
		if len(model) > int(xmath.RoundUpPowerOf2(c.Init)) {
			resized = true
		}
	}
	// drain and compare
	for len(model) > 0 {
		got := q.TryPop()
		if got != model[0] {
			o.Err = fmt.Errorf("final drain: TryPop returned %v, want %+v", got, *model[0])
			return o
		}
		model = model[1:]
	}
	if got := q.TryPop(); got != nil {
		o.Err = fmt.Errorf("final drain: phantom element %+v", *got)
		return o
	}
	o.NonTrivial = resized && (refusals > 0 || pushed > 2*capacity)
	if resized {
		o.Classes = append(o.Classes, "grew")
	}
	if refusals > 0 {
		o.Classes = append(o.Classes, "refused-when-full")
	}
	if pushed > 2*capacity {
		o.Classes = append(o.Classes, "wrapped-around")
	}
	o.Sig = vh.Sig(fmt.Sprint(c.Init, c.Max, c.Ops))
	return o
}

func TestC16_SeqModel(t *testing.T) {
	propMain(t, propSpec[mpscSeqCase]{
		Prop: "C16", Test: "SeqModel",
		Rule: "single-goroutine sequences of push bursts, pop bursts and Size/IsEmpty probes on queue.MPSC for generated (initial 2..64, maximum 4..512) capacity pairs against a bounded FIFO model with capacity RoundUpPow2(maximum): " +
			"a push is refused iff the model is full, pops return the oldest accepted element (pointer identity), Size/IsEmpty agree after every burst, the final drain returns exactly the remaining elements; " +
			"non-trivial = the queue grew past its initial chunk and (a push was refused or more than 2x capacity elements went through)",
		Gen: genMPSCSeq, Run: runMPSCSeq,
	})
}

// ---- free-running producers / one consumer ---------------------------------

type mpscConcCase struct {
	Init      uint32 `json:"init"`
	Max       uint32 `json:"max"`
	Producers int    `json:"producers"`
	PerProd   int    `json:"per_producer"`
	ConsYield int    `json:"consumer_yield_every"` // consumer pauses every n pops (lets the queue fill up)
	ProdYield int    `json:"producer_yield_every"`
	// DrainAfter: the consumer starts only after every producer has finished (total <= capacity), so the queue
	// passes through every growth step under producer-producer contention.
	DrainAfter bool `json:"drain_after"`
	Rounds     int  `json:"rounds"`
}

func genMPSCConc(t *rapid.T) mpscConcCase {
	var c mpscConcCase
	c.Max = uint32(pick(t, "max", 4, 8, 16, 64, 256, 2048))
	c.Init = uint32(pick(t, "init", 2, 4, 4, 8))
	if xmath.RoundUpPowerOf2(c.Init) > xmath.RoundUpPowerOf2(c.Max) {
		c.Init = 2
	}
	c.Producers = rapid.IntRange(1, 16).Draw(t, "producers")
	c.PerProd = rapid.IntRange(1, 3000).Draw(t, "per")
	c.ConsYield = pick(t, "cy", 0, 1, 7, 64)
	c.ProdYield = pick(t, "py", 0, 0, 3, 50)
	c.Rounds = 1
	if rapid.IntRange(0, 2).Draw(t, "drainafter") == 0 {
		c.DrainAfter = true
		c.Max = uint32(pick(t, "dmax", 64, 256, 1024, 2048))
		c.Init = 2
		c.Producers = rapid.IntRange(2, 16).Draw(t, "dproducers")
		c.PerProd = int(xmath.RoundUpPowerOf2(c.Max)) / c.Producers
		c.Rounds = rapid.IntRange(5, 40).Draw(t, "rounds")
	}
	return c
}

func pick[T any](t *rapid.T, label string, xs ...T) T {
	return xs[rapid.IntRange(0, len(xs)-1).Draw(t, label)]
}

func runMPSCConc(c mpscConcCase) outcome {
	var o outcome
	for r := 0; r < max(1, c.Rounds); r++ {
		o = runMPSCConcOnce(c)
		if o.Err != nil || o.Inconcl {
			return o
		}
	}
	return o
}

func runMPSCConcOnce(c mpscConcCase) outcome {
	var o outcome
	q := queue.NewMPSC[qItem](c.Init, c.Max)
	capacity := int64(xmath.RoundUpPowerOf2(c.Max))
	var (
		pushStarted  atomic.Int64 // pushes whose call has begun
		pushAccepted atomic.Int64 // accepted pushes whose call has returned
		popDone      atomic.Int64 // pops completed
		refusals     atomic.Int64
		badRefusal   atomic.Int64
	)
	var wg sync.WaitGroup
	var errMu sync.Mutex
	var firstErr error
	setErr := func(e error) {
		errMu.Lock()
		if firstErr == nil {
			firstErr = e
		}
		errMu.Unlock()
	}
	total := c.Producers * c.PerProd
	done := make(chan struct{})
	// consumer
	lastSeq := make([]int, c.Producers)
	for i := range lastSeq {
		lastSeq[i] = -1
	}
	seen := 0
	startConsumer := make(chan struct{})
	if !c.DrainAfter {
		close(startConsumer)
	}
	go func() {
		defer close(done)
		<-startConsumer
		defer func() {
			if r := recover(); r != nil {
				setErr(fmt.Errorf("consumer: the queue panicked: %v", r))
			}
		}()
		spins := 0
		for seen < total {
			it := q.TryPop()
			if it == nil {
				spins++
				if spins > 50_000_000 {
					setErr(fmt.Errorf("consumer: %d of %d accepted events never arrived (lost)", total-seen, total))
					return
				}
				runtime.Gosched()
				continue
			}
			spins = 0
			popDone.Add(1)
			if it.pid < 0 || it.pid >= c.Producers {
				setErr(fmt.Errorf("consumer: phantom element %+v", *it))
				return
			}
			if it.seq != lastSeq[it.pid]+1 {
				setErr(fmt.Errorf("consumer: producer %d: got seq %d after %d (lost, duplicated or reordered)", it.pid, it.seq, lastSeq[it.pid]))
				return
			}
			lastSeq[it.pid] = it.seq
			seen++
			if c.ConsYield > 0 && seen%c.ConsYield == 0 {
				runtime.Gosched()
			}
		}
	}()
	for p := 0; p < c.Producers; p++ {
		wg.Add(1)
		go func(p int) {
			defer wg.Done()
			defer func() {
				if r := recover(); r != nil {
					setErr(fmt.Errorf("producer %d: the queue panicked: %v", p, r))
				}
			}()
			for s := 0; s < c.PerProd; s++ {
				it := &qItem{p, s}
				for {
					select {
					case <-done:
						return
					default:
					}
					popsBefore := popDone.Load()
					pushStarted.Add(1)
					ok := q.TryPush(it)
					if ok {
						pushAccepted.Add(1)
						break
					}
					pushStarted.Add(-1)
					refusals.Add(1)
					// A refusal is justified only if the buffer could have been full: the pushes begun
					// before the refusal returned minus the pops completed before it started must reach capacity.
					if pushStarted.Load()+int64(c.Producers)-popsBefore < capacity {
						badRefusal.Add(1)
					}
					runtime.Gosched()
				}
				if c.ProdYield > 0 && s%c.ProdYield == 0 {
					runtime.Gosched()
				}
			}
		}(p)
	}
	// progress monitor: accepted pushes + completed pops must keep moving; 15 s of wall time without any progress while
	// goroutines are still trying means the queue is wedged (an element was reserved and never published, or the
	// consumer follows a bogus chunk): that is a lost event, not a timing matter.
	finished := make(chan struct{})
	go func() {
		wg.Wait()
		if c.DrainAfter {
			close(startConsumer)
		}
		<-done
		close(finished)
	}()
	lastProgress, idle := int64(-1), 0
	ticker := time.NewTicker(100 * time.Millisecond)
	wedged := false
monitor:
	for {
		select {
		case <-finished:
			break monitor
		case <-ticker.C:
			p := pushAccepted.Load() + popDone.Load() + refusals.Load()
			if p == lastProgress {
				idle++
			} else {
				idle, lastProgress = 0, p
			}
			if idle >= 150 {
				wedged = true
				break monitor
			}
		}
	}
	ticker.Stop()
	if wedged {
		o.Err = fmt.Errorf("queue wedged: no push was accepted or refused and no pop completed for 15 s although %d of %d events were accepted and only %d consumed", pushAccepted.Load(), total, popDone.Load())
		o.Sig = vh.Sig(fmt.Sprint(c))
		return o
	}
	if firstErr == nil {
		if extra := q.TryPop(); extra != nil {
			firstErr = fmt.Errorf("after all %d events were consumed the queue returned another element %+v", total, *extra)
		} else if !q.IsEmpty() || q.Size() != 0 {
			firstErr = fmt.Errorf("after all events were consumed Size()=%d IsEmpty()=%v", q.Size(), q.IsEmpty())
		} else if badRefusal.Load() > 0 {
			firstErr = fmt.Errorf("%d pushes were refused although fewer than capacity (%d) events could have been in the buffer", badRefusal.Load(), capacity)
		}
	}
	o.Err = firstErr
	grew := int64(total) > int64(xmath.RoundUpPowerOf2(c.Init))
	o.NonTrivial = c.Producers >= 2 && grew && refusals.Load() > 0
	if refusals.Load() > 0 {
		o.Classes = append(o.Classes, "refusal-observed")
	}
	if grew {
		o.Classes = append(o.Classes, "may-have-grown")
	}
	o.Classes = append(o.Classes, fmt.Sprintf("producers:%d", min(c.Producers, 8)))
	o.Sig = vh.Sig(fmt.Sprint(c), fmt.Sprint(refusals.Load() > 0))
	return o
}

func TestC16_Concurrent(t *testing.T) {
	propMain(t, propSpec[mpscConcCase]{
		Prop: "C16", Test: "Concurrent",
		Rule: "free-running goroutines: 1-16 producers push (producer, seq) pairs (retrying refused pushes), one consumer pops, capacities (2..8 initial, 4..2048 maximum), generated yield patterns so that the buffer runs full and empties repeatedly; " +
			"oracle (holds under every schedule): the consumer sees each producer's sequence 0,1,2,... without gap, duplicate or reordering and no foreign element; everything accepted is eventually consumed; a refusal must be explainable by (pushes begun before it returned) - (pops completed before it started) >= capacity; the queue is empty afterwards; " +
			"non-trivial = >= 2 producers, growth past the initial chunk and >= 1 refusal",
		Assumptions: []string{"schedules are sampled by the Go runtime on up to 16 cores, not enumerated"},
		Gen:         genMPSCConc, Run: runMPSCConc,
	})
}
