package props

import (
	"fmt"
	"os"
	"sync"
	"sync/atomic"
	"testing"
	"time"

	"github.com/maypok86/otter/v2"
	"github.com/maypok86/otter/v2/internal/verifhook"
	"github.com/maypok86/otter/v2/verifharness/vh"
	"pgregory.net/rapid"
)

// C13 on the hook-point scheduler: writes, deadline-extending touches and sweeps as logical threads.
//
// The clock gate (synctest) can park a *write* inside Clock.NowNano, but it cannot hold an operation inside its table
// computation while a sweep wants the same bucket: a goroutine waiting for a mutex is not durably blocked. Here the
// expiry calculator's hooks are scheduling points themselves (they call verifhook.Point, so a SetIfAbsent on a present key
// parks inside ExpireAfterRead with its bucket locked, a read parks between computing the new deadline and storing it),
// next to the cache's own points around evictions and the write buffer; the scheduler's watchdog lets a sweep that waits
// for such a bucket run "unmanaged". Reads only ever extend deadlines (the statement's proviso).
//
// Oracle, after every thread has finished: the clock is moved far beyond every possible deadline and maintenance runs with
// nothing in flight. Every entry must then be gone: EstimatedSize()==0, and every value that was installed has been
// reported to OnDeletion exactly once.

type c13sOp struct {
	Kind string `json:"kind"` // set setifabsent get getentry compute invalidate advance cleanup
	Key  int    `json:"key"`
	D    int    `json:"d,omitempty"`
}

type c13sCase struct {
	Bounded  bool       `json:"bounded"`
	TTL      int64      `json:"ttl"`      // lifetime after create/update
	ReadTTL  int64      `json:"read_ttl"` // a read makes the entry live at least this long from the time of the read (never shortens)
	Threads  [][]c13sOp `json:"threads"`
	Schedule []int      `json:"schedule"`
}

func genC13S(t *rapid.T) c13sCase {
	c := c13sCase{
		Bounded: rapid.IntRange(0, 2).Draw(t, "bounded") == 0,
		TTL:     pick(t, "ttl", int64(500), int64(1)<<30, int64(3)<<30, int64(70)<<30),
		ReadTTL: pick(t, "readttl", int64(2000), int64(2)<<30, int64(5)<<30, int64(100)<<30),
	}
	kinds := []string{"set", "set", "setifabsent", "setifabsent", "get", "get", "getentry", "compute", "invalidate", "advance", "advance", "cleanup", "cleanup"}
	nt := rapid.IntRange(2, 3).Draw(t, "threads")
	for i := 0; i < nt; i++ {
		c.Threads = append(c.Threads, rapid.SliceOfN(rapid.Custom(func(t *rapid.T) c13sOp {
			return c13sOp{Kind: kinds[rapid.IntRange(0, len(kinds)-1).Draw(t, "kind")], Key: rapid.IntRange(0, 1).Draw(t, "key"), D: rapid.IntRange(0, 3).Draw(t, "d")}
		}), 1, 6).Draw(t, "ops"))
	}
	c.Schedule = rapid.SliceOfN(rapid.IntRange(0, 7), 0, 300).Draw(t, "schedule")
	return c
}

func runC13S(c c13sCase) (o outcome) {
	s := vh.NewSched(c.Schedule)
	defer s.Close()
	clock := &vh.ManualClock{}
	clock.Set(1_000_000_000_000)
	var mu sync.Mutex
	installed := map[int]int{} // value -> key
	reported := map[int]int{}  // value -> times reported to OnDeletion
	var valCtr atomic.Int64
	var touches atomic.Int64
	opts := &otter.Options[int, int]{
		Clock:            clock,
		Logger:           &vh.RecLogger{},
		Executor:         func(fn func()) { fn() },
		ExpiryCalculator: c13sExpiry{ttl: c.TTL, readTTL: c.ReadTTL, touches: &touches},
		OnDeletion: func(e otter.DeletionEvent[int, int]) {
			mu.Lock()
			reported[e.Value]++
			if os.Getenv("VERIF_DEBUG") != "" {
				fmt.Printf("DEBUG OnDeletion %+v at clock %d\n", e, clock.Now())
			}
			mu.Unlock()
		},
		OnAtomicDeletion: func(e otter.DeletionEvent[int, int]) {
			if os.Getenv("VERIF_DEBUG") != "" {
				fmt.Printf("DEBUG OnAtomicDeletion %+v at clock %d\n", e, clock.Now())
			}
		},
	}
	if c.Bounded {
		opts.MaximumSize = 100
	}
	cache := otter.Must(opts)
	defer cache.StopAllGoroutines()
	note := func(k, v int) {
		mu.Lock()
		installed[v] = k
		mu.Unlock()
	}
	advances := []int64{700, int64(1)<<30 + 5, int64(4) << 30, int64(80) << 30}
	for _, ops := range c.Threads {
		ops := ops
		s.Go("t", func() {
			for _, op := range ops {
				v := int(valCtr.Add(1))
				switch op.Kind {
				case "set":
					cache.Set(op.Key, v)
					note(op.Key, v)
				case "setifabsent":
					if _, ok := cache.SetIfAbsent(op.Key, v); ok {
						note(op.Key, v)
					}
				case "get":
					cache.GetIfPresent(op.Key)
				case "getentry":
					cache.GetEntry(op.Key)
				case "compute":
					wrote := false
					cache.Compute(op.Key, func(old int, found bool) (int, otter.ComputeOp) {
						if found && op.D == 0 {
							return 0, otter.CancelOp
						}
						wrote = true
						return v, otter.WriteOp
					})
					if wrote {
						note(op.Key, v)
					}
				case "invalidate":
					cache.Invalidate(op.Key)
				case "advance":
					clock.Advance(advances[op.D%len(advances)])
				case "cleanup":
					cache.CleanUp()
				}
			}
		})
	}
	panics := s.Run(5 * time.Second)
	if s.Hang {
		o.Inconcl = true
		return o
	}
	if len(panics) > 0 {
		o.Err = fmt.Errorf("a thread panicked: %v", panics[0])
		return o
	}
	s.Close() // from here on the main goroutine calls the cache directly
	if os.Getenv("VERIF_DEBUG") != "" {
		fmt.Printf("DEBUG trace %v\nDEBUG installed %v\n", s.Trace, installed)
	}
	tail := s.Trace
	if len(tail) > 50 {
		tail = tail[len(tail)-50:]
	}
	// nothing is in flight any more: move the clock far beyond every deadline any entry can have and run maintenance
	clock.Advance(int64(400) << 30)
	cache.CleanUp()
	clock.Advance(int64(400) << 30)
	cache.CleanUp()
	cache.CleanUp()
	mu.Lock()
	defer mu.Unlock()
	if sz := cache.EstimatedSize(); sz != 0 {
		o.Err = fmt.Errorf("maintenance at clock %d with nothing in flight: every deadline lies more than 300 ticks in the past, but EstimatedSize()=%d (an expired entry that no sweep reaches any more); trace tail: %v", clock.Now(), sz, tail)
		return o
	}
	for v, k := range installed {
		if reported[v] != 1 {
			o.Err = fmt.Errorf("value %d of key %d was installed and is gone from the table, but was reported to OnDeletion %d times; trace tail: %v", v, k, reported[v], tail)
			return o
		}
	}
	o.NonTrivial = touches.Load() > 0 && len(installed) > 0
	if s.Fired > 0 {
		o.Classes = append(o.Classes, "a-thread-waited-for-a-locked-bucket")
	}
	if touches.Load() > 0 {
		o.Classes = append(o.Classes, "deadline-extending-touch")
	}
	o.Sig = vh.Sig(fmt.Sprint(c.Bounded, c.TTL, c.ReadTTL, c.Threads), fmt.Sprint(s.Trace))
	return o
}

// c13sExpiry: create/update -> ttl; read -> at least readTTL from now, never shorter than what is left. Every hook is a
// scheduling point.
type c13sExpiry struct {
	ttl, readTTL int64
	touches      *atomic.Int64
}

func (e c13sExpiry) ExpireAfterCreate(en otter.Entry[int, int]) time.Duration {
	verifhook.Point("h.expireAfterCreate")
	return time.Duration(e.ttl)
}

func (e c13sExpiry) ExpireAfterUpdate(en otter.Entry[int, int], old int) time.Duration {
	verifhook.Point("h.expireAfterUpdate")
	return time.Duration(e.ttl)
}

func (e c13sExpiry) ExpireAfterRead(en otter.Entry[int, int]) time.Duration {
	e.touches.Add(1)
	verifhook.Point("h.expireAfterRead")
	if left := int64(en.ExpiresAfter()); left > e.readTTL {
		return time.Duration(left)
	}
	return time.Duration(e.readTTL)
}

func TestC13_S3Touches(t *testing.T) {
	propMain(t, propSpec[c13sCase]{
		Prop: "C13", Test: "S3Touches",
		Rule: "hook-point cooperative scheduling: 2-3 threads with 1-6 operations each over 2 keys (Set, SetIfAbsent, GetIfPresent, GetEntry, Compute, Invalidate, clock advances from 700 ns to 80 ticks, CleanUp) on an expiring cache (unbounded or MaximumSize 100, same-goroutine executor) whose calculator extends the deadline on reads and never shortens it; " +
			"the calculator's hooks are scheduling points (an operation parks inside ExpireAfterRead / ExpireAfterCreate, for SetIfAbsent and writes with its bucket locked), next to the cache's own points around evictions and the write buffer; a generated []int picks the thread to run; " +
			"oracle once every thread has finished: the clock moves 800 ticks ahead and maintenance runs with nothing in flight - EstimatedSize()==0 and every installed value has been reported to OnDeletion exactly once; non-trivial = at least one deadline-extending touch and one installed value",
		Assumptions: []string{"interleavings are explored at hook-point granularity; the watchdog can only add legal concurrency", "reads only ever extend deadlines (the statement's proviso)"},
		Gen:         genC13S, Run: runC13S,
	})
}
