package props

import (
	"context"
	"fmt"
	"runtime"
	"sync"
	"sync/atomic"
	"testing"

	"github.com/maypok86/otter/v2"
	"github.com/maypok86/otter/v2/verifharness/vh"
	"pgregory.net/rapid"
)

// Free-running single-flight check: goroutines released together call Get /
// BulkGet on the same absent keys of an unbounded cache that nobody writes to,
// so any two loader invocations for one key that overlap in time violate C08.

type sfCase struct {
	Goroutines int   `json:"goroutines"`
	Rounds     int   `json:"rounds"`
	Keys       int   `json:"keys_per_round"`
	Bulk       bool  `json:"bulk"`
	Spin       int   `json:"loader_yields"`
	Procs      int   `json:"gomaxprocs"`
	Noise      int   `json:"noise"`
	Seed       int64 `json:"seed"`
}

func genSF(t *rapid.T) sfCase {
	return sfCase{
		Goroutines: rapid.IntRange(2, 16).Draw(t, "g"),
		Rounds:     rapid.IntRange(5, 60).Draw(t, "rounds"),
		Keys:       rapid.IntRange(1, 3).Draw(t, "keys"),
		Bulk:       rapid.Bool().Draw(t, "bulk"),
		Spin:       pick(t, "spin", 0, 5, 50),
		Procs:      pick(t, "procs", 16, 16, 4, 2),
		Noise:      pick(t, "noise", 0, 1),
		Seed:       rapid.Int64().Draw(t, "seed"),
	}
}

func runSF(c sfCase) outcome {
	var o outcome
	if c.Procs > 0 {
		defer runtime.GOMAXPROCS(runtime.GOMAXPROCS(c.Procs))
	}
	if c.Noise > 0 {
		defer vh.InstallNoise(uint64(c.Seed), 300, 0)()
	}
	cache := otter.Must(&otter.Options[int, int]{Logger: &vh.RecLogger{}})
	var clock atomic.Int64
	type span struct {
		key      int
		from, to int64
	}
	var mu sync.Mutex
	var spans []span
	load := func(k int) int {
		from := clock.Add(1)
		for i := 0; i < c.Spin; i++ {
			runtime.Gosched()
		}
		to := clock.Add(1)
		mu.Lock()
		spans = append(spans, span{k, from, to})
		mu.Unlock()
		return k*1000 + 7
	}
	loader := otter.LoaderFunc[int, int](func(ctx context.Context, k int) (int, error) { return load(k), nil })
	bulk := otter.BulkLoaderFunc[int, int](func(ctx context.Context, ks []int) (map[int]int, error) {
		m := map[int]int{}
		for _, k := range ks {
			m[k] = load(k)
		}
		return m, nil
	})
	var bad atomic.Pointer[string]
	joined := 0
	for r := 0; r < c.Rounds && bad.Load() == nil; r++ {
		var start, done sync.WaitGroup
		start.Add(1)
		base := r * 10
		for g := 0; g < c.Goroutines; g++ {
			done.Add(1)
			go func(g int) {
				defer done.Done()
				start.Wait()
				if c.Bulk && g%2 == 0 {
					ks := make([]int, c.Keys)
					for i := range ks {
						ks[i] = base + i
					}
					res, err := cache.BulkGet(context.Background(), ks, bulk)
					for _, k := range ks {
						if err != nil || res[k] != k*1000+7 {
							s := fmt.Sprintf("BulkGet(%v) returned %v, %v", ks, res, err)
							bad.CompareAndSwap(nil, &s)
						}
					}
					return
				}
				k := base + g%c.Keys
				v, err := cache.Get(context.Background(), k, loader)
				if err != nil || v != k*1000+7 {
					s := fmt.Sprintf("Get(%d) returned (%d,%v)", k, v, err)
					bad.CompareAndSwap(nil, &s)
				}
			}(g)
		}
		start.Done()
		done.Wait()
	}
	if s := bad.Load(); s != nil {
		o.Err = fmt.Errorf("%s", *s)
		return o
	}
	perKey := map[int][]span{}
	for _, s := range spans {
		perKey[s.key] = append(perKey[s.key], s)
	}
	for k, ss := range perKey {
		for i := range ss {
			for j := i + 1; j < len(ss); j++ {
				if ss[i].from <= ss[j].to && ss[j].from <= ss[i].to {
					o.Err = fmt.Errorf("two loader invocations for key %d overlapped in time ([%d,%d] and [%d,%d]) although the key was never written, invalidated or evicted", k, ss[i].from, ss[i].to, ss[j].from, ss[j].to)
					return o
				}
			}
		}
		if len(ss) < c.Goroutines {
			joined++
		}
	}
	if n := cache.VerifInFlightCalls(); n != 0 {
		o.Err = fmt.Errorf("%d in-flight records left after every call returned", n)
		return o
	}
	o.NonTrivial = joined > 0
	if c.Bulk {
		o.Classes = append(o.Classes, "bulk-and-single")
	}
	o.Sig = vh.Sig(fmt.Sprint(c))
	return o
}

func TestC08_S4Overlap(t *testing.T) {
	propMain(t, propSpec[sfCase]{
		Prop: "C08", Test: "S4Overlap",
		Rule: "free-running: 2-16 goroutines released together call Get (and BulkGet over the same keys) on 1-3 fresh absent keys per round (5-60 rounds) of an unbounded cache that nobody writes to; the loader stamps its entry and exit with one atomic counter and yields in between; GOMAXPROCS 2..16, optional yields at the hook points; " +
			"oracle (every schedule): no two loader invocations for one key overlap, every caller receives the loaded value, no in-flight record remains; non-trivial = some key had fewer invocations than callers (calls were joined)",
		Assumptions: []string{"schedules are sampled by the Go runtime, not enumerated"},
		Gen:         genSF, Run: runSF,
	})
}
