package props

import (
	"fmt"
	"math/rand"
	"runtime"
	"sort"
	"sync"
	"sync/atomic"
	"testing"
	"unsafe"

	"github.com/maypok86/otter/v2/internal/hashmap"
	"github.com/maypok86/otter/v2/verifharness/vh"
	"pgregory.net/rapid"
)

type hnode struct {
	k, v int
}

func (n *hnode) Key() int                  { return n.k }
func (n *hnode) Value() int                { return n.v }
func (n *hnode) AsPointer() unsafe.Pointer { return unsafe.Pointer(n) }

type hmgr struct{}

func (hmgr) FromPointer(p unsafe.Pointer) *hnode { return (*hnode)(p) }
func (hmgr) IsNil(n *hnode) bool                 { return n == nil }

type hmap = hashmap.Map[int, int, *hnode]

// ---- sequential model ------------------------------------------------------

type hmOp struct {
	Kind string `json:"kind"` // put, del, noop, get, range, clear, fill, drain
	Key  int    `json:"key,omitempty"`
	N    int    `json:"n,omitempty"`
}

type hmSeqCase struct {
	Procs   int    `json:"gomaxprocs"`
	InitCap int    `json:"init_cap"`
	KeyMul  int    `json:"key_mul"` // keys are Key*KeyMul (varies hash patterns)
	Ops     []hmOp `json:"ops"`
}

func genHMSeq(t *rapid.T) hmSeqCase {
	var c hmSeqCase
	c.Procs = pick(t, "procs", 16, 1, 2, 3, 5, 6, 7, 12)
	c.InitCap = pick(t, "initcap", 0, 0, 1, 7, 33, 160, 1000, 4096)
	c.KeyMul = pick(t, "keymul", 1, 1, 2, 64, 1<<20, 1<<32)
	space := pick(t, "space", 8, 64, 400, 3000)
	c.Ops = rapid.SliceOfN(rapid.Custom(func(t *rapid.T) hmOp {
		k := rapid.IntRange(0, 99).Draw(t, "kind")
		key := rapid.IntRange(0, space-1).Draw(t, "key")
		switch {
		case k < 35:
			return hmOp{Kind: "put", Key: key}
		case k < 55:
			return hmOp{Kind: "del", Key: key}
		case k < 60:
			return hmOp{Kind: "noop", Key: key}
		case k < 80:
			return hmOp{Kind: "get", Key: key}
		case k < 85:
			return hmOp{Kind: "range", N: rapid.IntRange(0, 50).Draw(t, "stopafter")}
		case k < 87:
			return hmOp{Kind: "clear"}
		case k < 94:
			return hmOp{Kind: "fill", Key: rapid.IntRange(0, 3000).Draw(t, "from"), N: rapid.IntRange(1, 1500).Draw(t, "n")}
		default:
			return hmOp{Kind: "drain", Key: rapid.IntRange(0, 3000).Draw(t, "from"), N: rapid.IntRange(1, 3000).Draw(t, "n")}
		}
	}), 1, 150).Draw(t, "ops")
	return c
}

func runHMSeq(c hmSeqCase) outcome {
	var o outcome
	if c.Procs > 0 {
		defer runtime.GOMAXPROCS(runtime.GOMAXPROCS(c.Procs))
	}
	m := hashmap.NewWithSize[int, int, *hnode](hmgr{}, c.InitCap)
	model := map[int]int{}
	ver := 0
	fail := func(i int, f string, a ...any) outcome {
		o.Err = fmt.Errorf("op %d: "+f, append([]any{i}, a...)...)
		return o
	}
	put := func(i, key int) error {
		ver++
		calls := 0
		nn := &hnode{key, ver}
		old, had := model[key]
		got := m.Compute(key, func(n *hnode) *hnode {
			calls++
			if had != (n != nil) || (n != nil && (n.v != old || n.k != key)) {
				calls += 100
			}
			return nn
		})
		if calls != 1 {
			return fmt.Errorf("op %d: Compute(put %d): callback calls/precondition code %d (1 = once with the right old node)", i, key, calls)
		}
		if got != nn {
			return fmt.Errorf("op %d: Compute(put %d) did not return the new node", i, key)
		}
		model[key] = ver
		return nil
	}
	del := func(i, key int) error {
		calls := 0
		old, had := model[key]
		got := m.Compute(key, func(n *hnode) *hnode {
			calls++
			if had != (n != nil) || (n != nil && n.v != old) {
				calls += 100
			}
			return nil
		})
		if calls != 1 || got != nil {
			return fmt.Errorf("op %d: Compute(delete %d): callback code %d, returned %v", i, key, calls, got)
		}
		delete(model, key)
		return nil
	}
	for i, op := range c.Ops {
		key := op.Key * c.KeyMul
		switch op.Kind {
		case "put":
			if err := put(i, key); err != nil {
				o.Err = err
				return o
			}
		case "del":
			if err := del(i, key); err != nil {
				o.Err = err
				return o
			}
		case "noop":
			calls := 0
			got := m.Compute(key, func(n *hnode) *hnode { calls++; return n })
			want, had := model[key]
			if calls != 1 || (got != nil) != had || (got != nil && got.v != want) {
				return fail(i, "Compute(no-op %d): calls %d, returned %v, model (%d,%v)", key, calls, got, want, had)
			}
		case "get":
			got := m.Get(key)
			want, had := model[key]
			if (got != nil) != had || (got != nil && (got.v != want || got.k != key)) {
				return fail(i, "Get(%d) = %v, model (%d,%v)", key, got, want, had)
			}
		case "range":
			seen := map[int]int{}
			n := 0
			m.Range(func(x *hnode) bool {
				seen[x.k]++
				if w, ok := model[x.k]; !ok || w != x.v {
					seen[x.k] += 1000
				}
				n++
				return op.N == 0 || n < op.N
			})
			for k, cnt := range seen {
				if cnt != 1 {
					return fail(i, "Range yielded key %d with code %d (1 = once, current value)", k, cnt)
				}
			}
			if op.N == 0 && len(seen) != len(model) {
				return fail(i, "Range yielded %d keys, model holds %d", len(seen), len(model))
			}
			if op.N > 0 && n > op.N {
				return fail(i, "Range continued after the callback returned false")
			}
		case "clear":
			m.Clear()
			model = map[int]int{}
		case "fill":
			for k := op.Key; k < op.Key+op.N; k++ {
				if err := put(i, k*c.KeyMul); err != nil {
					o.Err = err
					return o
				}
			}
		case "drain":
			for k := op.Key; k < op.Key+op.N; k++ {
				if err := del(i, k*c.KeyMul); err != nil {
					o.Err = err
					return o
				}
			}
		}
		if sz := m.Size(); sz != len(model) {
			return fail(i, "Size()=%d after %s, model holds %d", sz, op.Kind, len(model))
		}
	}
	// full comparison
	for k, w := range model {
		if got := m.Get(k); got == nil || got.v != w {
			o.Err = fmt.Errorf("final: key %d lost or stale: %v, want value %d", k, got, w)
			return o
		}
	}
	g, s := m.VerifResizes()
	o.NonTrivial = g > 0 && s > 0
	if g > 0 {
		o.Classes = append(o.Classes, "grew")
	}
	if s > 0 {
		o.Classes = append(o.Classes, "shrank")
	}
	o.Sig = vh.Sig(fmt.Sprint(c))
	return o
}

func TestC15_SeqModel(t *testing.T) {
	propMain(t, propSpec[hmSeqCase]{
		Prop: "C15", Test: "SeqModel",
		Rule: "single-goroutine sequences (1-150 ops incl. bulk fills/drains of up to 1500/3000 keys) of Compute(insert/update/delete/no-op), Get, Range (full and early-stopped), Size and Clear on internal/hashmap.Map with initial capacities 0..4096 and key strides 1..2^32, against a Go map: " +
			"callbacks run exactly once with the current node, results and Size agree after every op, Range yields every key exactly once with its current value; non-trivial = the table grew and shrank at least once during the case",
		Gen: genHMSeq, Run: runHMSeq,
	})
}

// ---- concurrent: single-writer registers, counters, iteration ---------------

type hmConcCase struct {
	InitCap    int   `json:"init_cap"`
	Goroutines int   `json:"goroutines"`
	OwnedKeys  int   `json:"owned_keys_per_goroutine"`
	OpsPerG    int   `json:"ops_per_goroutine"`
	Counters   int   `json:"counter_keys"`
	Stable     int   `json:"stable_keys"`
	Filler     int   `json:"filler_keys"`
	Waves      int   `json:"filler_waves"`
	Seed       int64 `json:"seed"`
	Yield      int   `json:"yield_every"`
	Procs      int   `json:"gomaxprocs"`
	Noise      int   `json:"noise"` // 0 none, 1 yields at hook points, 2 yields and sleeps
	// chain mode (TestC15_ChainConcurrent): every key of the program is translated into an integer that the initial
	// table puts into one of Collide bucket chains; Churn colliding keys are inserted and removed in waves.
	Collide int `json:"target_chains,omitempty"`
	Metas   int `json:"meta_classes,omitempty"`
	Churn   int `json:"churn_keys,omitempty"`
}

func genHMConc(t *rapid.T) hmConcCase {
	return hmConcCase{
		InitCap:    pick(t, "initcap", 0, 1, 1, 64, 1000),
		Goroutines: rapid.IntRange(2, 12).Draw(t, "g"),
		OwnedKeys:  rapid.IntRange(1, 6).Draw(t, "owned"),
		OpsPerG:    rapid.IntRange(50, 3000).Draw(t, "ops"),
		Counters:   rapid.IntRange(1, 3).Draw(t, "counters"),
		Stable:     rapid.IntRange(0, 300).Draw(t, "stable"),
		Filler:     pick(t, "filler", 0, 200, 600, 2000, 6000),
		Waves:      rapid.IntRange(1, 4).Draw(t, "waves"),
		Seed:       rapid.Int64().Draw(t, "seed"),
		Yield:      pick(t, "yield", 0, 0, 1, 16),
		Procs:      pick(t, "procs", 16, 16, 2, 3, 5, 6, 12),
		Noise:      pick(t, "noise", 0, 1, 2, 2),
	}
}

const (
	baseOwned   = 0
	baseCounter = 1_000_000
	baseStable  = 2_000_000
	baseRemoved = 3_000_000
	baseFiller  = 4_000_000
	baseChurn   = 5_000_000
)

func runHMConc(c hmConcCase) outcome {
	var o outcome
	if c.Procs > 0 {
		defer runtime.GOMAXPROCS(runtime.GOMAXPROCS(c.Procs))
	}
	switch c.Noise {
	case 1:
		defer vh.InstallNoise(uint64(c.Seed), 300, 0)()
	case 2:
		defer vh.InstallNoise(uint64(c.Seed), 200, 250)()
	}
	m := hashmap.NewWithSize[int, int, *hnode](hmgr{}, c.InitCap)
	var firstErr atomic.Pointer[error]
	setErr := func(e error) { firstErr.CompareAndSwap(nil, &e) }

	nOwned := c.Goroutines * c.OwnedKeys
	// km translates a program key into the integer stored in the table, rk translates back (identity outside chain mode;
	// in chain mode both tables are complete before the first goroutine starts and read-only afterwards)
	km := func(k int) int { return k }
	rk := func(k int) int { return k }
	if c.Collide > 0 {
		ck := newChainKeys(m, c.Collide, c.Metas)
		for i := 0; i < nOwned; i++ {
			ck.keyOf(baseOwned + i)
		}
		for i := 0; i < c.Counters; i++ {
			ck.keyOf(baseCounter + i)
		}
		for i := 0; i < c.Stable; i++ {
			ck.keyOf(baseStable + i)
		}
		for i := 0; i < 50; i++ {
			ck.keyOf(baseRemoved + i)
		}
		for i := 0; i < c.Churn; i++ {
			ck.keyOf(baseChurn + i)
		}
		km = func(k int) int {
			if a, ok := ck.fwd[k]; ok {
				return a
			}
			return k + 1_000_000_000 // filler keys: not translated, far away from the translated integers
		}
		rk = func(a int) int {
			if k, ok := ck.bwd[a]; ok {
				return k
			}
			return a - 1_000_000_000
		}
	}
	maxVer := c.OpsPerG + 2
	// per owned key: kinds[v] = present?; started/completed version counters
	kinds := make([][]bool, nOwned)
	started := make([]atomic.Int64, nOwned)
	completed := make([]atomic.Int64, nOwned)
	for i := range kinds {
		kinds[i] = make([]bool, maxVer+1) // version 0 = absent
	}
	// stable and removed-before sets
	for i := 0; i < c.Stable; i++ {
		k := baseStable + i
		m.Compute(km(k), func(*hnode) *hnode { return &hnode{km(k), 1} })
	}
	for i := 0; i < 50; i++ {
		k := baseRemoved + i
		m.Compute(km(k), func(*hnode) *hnode { return &hnode{km(k), 1} })
	}
	for i := 0; i < 50; i++ {
		m.Compute(km(baseRemoved+i), func(*hnode) *hnode { return nil })
	}
	for i := 0; i < c.Counters; i++ {
		k := baseCounter + i
		m.Compute(km(k), func(*hnode) *hnode { return &hnode{km(k), 0} })
	}
	var counterCalls, counterCallbacks atomic.Int64
	var reads, checkedWindows atomic.Int64

	readCheck := func(k int) {
		idx := k - baseOwned
		c0 := completed[idx].Load()
		n := m.Get(km(k))
		s1 := started[idx].Load()
		reads.Add(1)
		if n != nil {
			x := int64(n.v)
			if n.k != km(k) {
				setErr(fmt.Errorf("Get(%d) returned a node of key %d", k, n.k))
				return
			}
			if x < c0 || x > s1 {
				setErr(fmt.Errorf("stale or future read: Get(%d) returned version %d, but version %d had completed before the read began and only version %d had been started when it ended", k, x, c0, s1))
			}
			return
		}
		// absent: some version in [c0, s1] must be a deletion (or the initial absence)
		for v := c0; v <= s1; v++ {
			if !kinds[idx][v] {
				return
			}
		}
		setErr(fmt.Errorf("lost key: Get(%d) returned absent although every version in [%d,%d] is a present value", k, c0, s1))
	}

	var wg sync.WaitGroup
	for g := 0; g < c.Goroutines; g++ {
		wg.Add(1)
		go func(g int) {
			defer wg.Done()
			rng := rand.New(rand.NewSource(c.Seed + int64(g)*7919))
			ver := make([]int64, c.OwnedKeys)
			for i := 0; i < c.OpsPerG && firstErr.Load() == nil; i++ {
				if c.Yield > 0 && i%c.Yield == 0 {
					runtime.Gosched()
				}
				switch r := rng.Intn(100); {
				case r < 45: // write one of my keys
					j := rng.Intn(c.OwnedKeys)
					k := baseOwned + g*c.OwnedKeys + j
					idx := k - baseOwned
					v := ver[j] + 1
					present := rng.Intn(3) != 0
					kinds[idx][v] = present
					started[idx].Store(v)
					calls := 0
					var sawV int64 = -1
					m.Compute(km(k), func(n *hnode) *hnode {
						calls++
						if n != nil {
							sawV = int64(n.v)
						} else {
							sawV = 0
						}
						if present {
							return &hnode{km(k), int(v)}
						}
						return nil
					})
					completed[idx].Store(v)
					if calls != 1 {
						setErr(fmt.Errorf("Compute(%d) ran its function %d times", k, calls))
					}
					// single writer: the function must have seen my previous version (or absence)
					prev := ver[j]
					if kinds[idx][prev] {
						if sawV != prev {
							setErr(fmt.Errorf("Compute(%d): function saw version %d, the owner's previous write was version %d (present)", k, sawV, prev))
						}
					} else if sawV != 0 {
						setErr(fmt.Errorf("Compute(%d): function saw version %d, the owner's previous operation was a removal", k, sawV))
					}
					ver[j] = v
					// the owner must find its own write
					n := m.Get(km(k))
					if present && (n == nil || int64(n.v) != v) {
						setErr(fmt.Errorf("owner of key %d wrote version %d and immediately read %v", k, v, n))
					}
					if !present && n != nil {
						setErr(fmt.Errorf("owner of key %d removed it and immediately read version %d", k, n.v))
					}
				case r < 80: // read somebody's key
					k := baseOwned + rng.Intn(nOwned)
					readCheck(k)
				case r < 90: // counter
					k := baseCounter + rng.Intn(c.Counters)
					counterCalls.Add(1)
					m.Compute(km(k), func(n *hnode) *hnode {
						counterCallbacks.Add(1)
						if n == nil {
							setErr(fmt.Errorf("counter key %d vanished", k))
							return &hnode{km(k), 1}
						}
						return &hnode{km(k), n.v + 1}
					})
				default: // iterate
					seen := map[int]int{}
					m.Range(func(n *hnode) bool {
						seen[rk(n.k)]++
						return true
					})
					for k, cnt := range seen {
						if cnt > 1 {
							setErr(fmt.Errorf("Range yielded key %d %d times", k, cnt))
						}
						if k >= baseRemoved && k < baseFiller {
							setErr(fmt.Errorf("Range yielded key %d which was removed before the iteration began", k))
						}
					}
					for i := 0; i < c.Stable; i++ {
						if seen[baseStable+i] != 1 {
							setErr(fmt.Errorf("Range yielded stable key %d %d times (present for the whole iteration)", baseStable+i, seen[baseStable+i]))
						}
					}
					checkedWindows.Add(1)
				}
			}
		}(g)
	}
	// filler waves force growth and shrinking during the concurrent phase
	if c.Filler > 0 {
		wg.Add(1)
		go func() {
			defer wg.Done()
			for w := 0; w < c.Waves && firstErr.Load() == nil; w++ {
				for i := 0; i < c.Filler; i++ {
					k := baseFiller + i
					m.Compute(km(k), func(*hnode) *hnode { return &hnode{km(k), w} })
				}
				for i := 0; i < c.Filler; i++ {
					if n := m.Get(km(baseFiller + i)); n == nil {
						setErr(fmt.Errorf("filler key %d lost after insertion (wave %d)", baseFiller+i, w))
						return
					}
				}
				for i := 0; i < c.Filler; i++ {
					m.Compute(km(baseFiller+i), func(*hnode) *hnode { return nil })
				}
			}
		}()
	}
	// chain mode: waves of colliding keys make the target chains grow by dozens of buckets and empty them again while
	// the other goroutines walk those chains
	if c.Collide > 0 && c.Churn > 0 {
		wg.Add(1)
		go func() {
			defer wg.Done()
			for w := 0; w < 2+c.Waves*2 && firstErr.Load() == nil; w++ {
				for i := 0; i < c.Churn; i++ {
					k := km(baseChurn + i)
					m.Compute(k, func(*hnode) *hnode { return &hnode{k, w} })
				}
				for i := 0; i < c.Churn; i++ {
					if n := m.Get(km(baseChurn + i)); n == nil || n.v != w {
						setErr(fmt.Errorf("churn key %d (stored as %d) lost or stale after insertion (wave %d): %v", baseChurn+i, km(baseChurn+i), w, n))
						return
					}
				}
				for i := c.Churn - 1; i >= 0; i -= 2 { // odd positions first, then the rest: holes in the middle of the chains
					m.Compute(km(baseChurn+i), func(*hnode) *hnode { return nil })
				}
				for i := c.Churn - 2; i >= 0; i -= 2 {
					m.Compute(km(baseChurn+i), func(*hnode) *hnode { return nil })
				}
				for i := 0; i < c.Churn; i++ {
					if n := m.Get(km(baseChurn + i)); n != nil {
						setErr(fmt.Errorf("churn key %d (stored as %d) still found after its removal (wave %d)", baseChurn+i, km(baseChurn+i), w))
						return
					}
				}
			}
		}()
	}
	wg.Wait()
	if e := firstErr.Load(); e != nil {
		o.Err = *e
		return o
	}
	// quiescent checks
	want := c.Stable + c.Counters
	for idx := 0; idx < nOwned; idx++ {
		v := completed[idx].Load()
		n := m.Get(km(baseOwned + idx))
		if kinds[idx][v] {
			want++
			if n == nil || int64(n.v) != v {
				o.Err = fmt.Errorf("quiescent: key %d should hold version %d, found %v", baseOwned+idx, v, n)
				return o
			}
		} else if n != nil {
			o.Err = fmt.Errorf("quiescent: key %d should be absent, found version %d", baseOwned+idx, n.v)
			return o
		}
	}
	var sum int64
	for i := 0; i < c.Counters; i++ {
		if n := m.Get(km(baseCounter + i)); n != nil {
			sum += int64(n.v)
		}
	}
	if sum != counterCalls.Load() || counterCallbacks.Load() != counterCalls.Load() {
		o.Err = fmt.Errorf("counters: %d Compute calls, %d function invocations, sum of counters %d", counterCalls.Load(), counterCallbacks.Load(), sum)
		return o
	}
	if sz := m.Size(); sz != want {
		o.Err = fmt.Errorf("quiescent: Size()=%d, %d keys are present", sz, want)
		return o
	}
	var keys []int
	m.Range(func(n *hnode) bool { keys = append(keys, n.k); return true })
	sort.Ints(keys)
	for i := 1; i < len(keys); i++ {
		if keys[i] == keys[i-1] {
			o.Err = fmt.Errorf("quiescent: Range yields key %d twice", keys[i])
			return o
		}
	}
	if len(keys) != want {
		o.Err = fmt.Errorf("quiescent: Range yields %d keys, %d are present", len(keys), want)
		return o
	}
	g, s := m.VerifResizes()
	o.NonTrivial = g > 0 && s > 0 && reads.Load() > 0
	if c.Collide > 0 {
		// overflow buckets are never unlinked, so the longest chain at quiescence is the longest chain of the run
		// (unless the table was replaced by a growth in between)
		longest := m.VerifMaxChain()
		o.NonTrivial = longest >= 4 && reads.Load() > 0
		for _, th := range []int{4, 10, 20} {
			if longest >= th {
				o.Classes = append(o.Classes, fmt.Sprintf("chain>=%d-buckets", th))
			}
		}
		if c.Metas > 0 {
			o.Classes = append(o.Classes, "equal-meta-hashes")
		}
	}
	if g > 0 {
		o.Classes = append(o.Classes, "grew-during-run")
	}
	if s > 0 {
		o.Classes = append(o.Classes, "shrank-during-run")
	}
	if checkedWindows.Load() > 0 {
		o.Classes = append(o.Classes, "range-during-churn")
	}
	o.Sig = vh.Sig(fmt.Sprint(c))
	return o
}

func TestC15_Concurrent(t *testing.T) {
	propMain(t, propSpec[hmConcCase]{
		Prop: "C15", Test: "Concurrent",
		Rule: "free-running program generated by rapid (2-12 goroutines x 50-3000 ops, schedule by the Go runtime): every key has one owner that writes increasing versions or removes it (single-writer registers), all goroutines read any key, increment shared counters through Compute and run Range, " +
			"while a filler goroutine inserts and removes up to 6000 keys in waves from InitialCapacity 0/1/64/1000 so that the table grows and shrinks during the run; oracle (exact for single-writer registers under every schedule): a read returns a version v with completedBefore <= v <= startedAfter (absent only if a removal lies in that window), " +
			"an owner always finds its own last write, each Compute function runs exactly once and sees the owner's previous version, counters sum to the number of calls, Range never yields a key twice, never a key removed before it began, and every stable key exactly once; Size()==keys once quiescent; " +
			"non-trivial = at least one growth and one shrink happened and cross-goroutine reads were checked",
		Assumptions: []string{"schedules are sampled by the Go runtime on up to 16 cores, not enumerated"},
		Gen:         genHMConc, Run: runHMConc,
	})
}

func genHMChainConc(t *rapid.T) hmConcCase {
	c := hmConcCase{
		Goroutines: rapid.IntRange(2, 12).Draw(t, "g"),
		OwnedKeys:  rapid.IntRange(1, 6).Draw(t, "owned"),
		OpsPerG:    rapid.IntRange(50, 3000).Draw(t, "ops"),
		Counters:   rapid.IntRange(1, 3).Draw(t, "counters"),
		Waves:      rapid.IntRange(1, 4).Draw(t, "waves"),
		Seed:       rapid.Int64().Draw(t, "seed"),
		Yield:      pick(t, "yield", 0, 0, 1, 16),
		Procs:      pick(t, "procs", 16, 16, 2, 3, 6),
		Noise:      pick(t, "noise", 0, 0, 1, 2),
		Collide:    pick(t, "chains", 1, 1, 2, 3),
	}
	if rapid.Bool().Draw(t, "small") {
		// 64 root buckets (growth above 240 keys): few enough candidates to ask for equal meta hashes as well
		c.InitCap = 200
		c.Metas = pick(t, "metas", 0, 1, 2)
		c.Stable = rapid.IntRange(0, 60).Draw(t, "stable")
		c.Churn = rapid.IntRange(0, 60).Draw(t, "churn")
	} else {
		// 512 root buckets (growth above 1920 keys)
		c.InitCap = 1000
		c.Stable = rapid.IntRange(0, 300).Draw(t, "stable")
		c.Churn = rapid.IntRange(0, 250).Draw(t, "churn")
		c.Filler = pick(t, "filler", 0, 0, 0, 3000) // a growth in the middle of the run re-seeds the hash: the long chains are copied
	}
	return c
}

func TestC15_ChainConcurrent(t *testing.T) {
	propMain(t, propSpec[hmConcCase]{
		Prop: "C15", Test: "ChainConcurrent",
		Rule: "the free-running program of TestC15_Concurrent (single-writer registers, shared counters, Range, stable and removed-before key sets) with every key translated, through the read-only probe of the table's hash, into an integer that falls into one of 1-3 bucket chains of a table of 64 or 512 root buckets (optionally 1-2 distinct meta hashes), " +
			"plus a churn goroutine that inserts up to 250 further colliding keys and removes them again (alternate positions first) in waves, so that lock-free lookups and iterations walk chains of dozens of linked buckets while they are rewritten; same oracle; " +
			"non-trivial = a chain of >= 4 linked buckets existed and cross-goroutine reads were checked",
		Assumptions: []string{"schedules are sampled by the Go runtime on up to 16 cores, not enumerated"},
		Gen:         genHMChainConc, Run: runHMConc,
	})
}
