package props

import (
	"fmt"
	"testing"
	"time"

	"github.com/maypok86/otter/v2/internal/deque/queue"
	"github.com/maypok86/otter/v2/internal/generated/node"
	"github.com/maypok86/otter/v2/internal/lossy"
	"github.com/maypok86/otter/v2/internal/xmath"
	"github.com/maypok86/otter/v2/verifharness/vh"
	"pgregory.net/rapid"
)

// S3 on the write buffer and the read buffer: producers and the consumer are
// logical threads parked at the hook points between the index CAS and the
// publication of the element (and inside resize / drain).

type mpscS3Case struct {
	Init      uint32 `json:"init"`
	Max       uint32 `json:"max"`
	Producers []int  `json:"producers"` // pushes per producer
	Pops      int    `json:"consumer_pops"`
	Schedule  []int  `json:"schedule"`
}

func genMPSCS3(t *rapid.T) mpscS3Case {
	c := mpscS3Case{Init: uint32(pick(t, "init", 2, 2, 4)), Max: uint32(pick(t, "max", 4, 8, 16))}
	n := rapid.IntRange(1, 4).Draw(t, "producers")
	for i := 0; i < n; i++ {
		c.Producers = append(c.Producers, rapid.IntRange(1, 12).Draw(t, "pushes"))
	}
	c.Pops = rapid.IntRange(0, 30).Draw(t, "pops")
	c.Schedule = rapid.SliceOfN(rapid.IntRange(0, 7), 0, 300).Draw(t, "schedule")
	return c
}

func runMPSCS3(c mpscS3Case) outcome {
	var o outcome
	s := vh.NewSched(c.Schedule)
	defer s.Close()
	s.Watchdog = time.Millisecond
	q := queue.NewMPSC[qItem](c.Init, c.Max)
	capacity := int(xmath.RoundUpPowerOf2(c.Max))
	accepted := make([][]int, len(c.Producers))
	refusedAt := 0
	var popped []qItem
	for p, n := range c.Producers {
		p, n := p, n
		s.Go("p", func() {
			for i := 0; i < n; i++ {
				if q.TryPush(&qItem{p, i}) {
					accepted[p] = append(accepted[p], i)
				} else {
					refusedAt++
				}
			}
		})
	}
	s.Go("c", func() {
		for i := 0; i < c.Pops; i++ {
			if it := q.TryPop(); it != nil {
				popped = append(popped, *it)
			}
		}
	})
	panics := s.Run(5 * time.Second)
	if s.Hang {
		o.Inconcl = true
		return o
	}
	if len(panics) > 0 {
		o.Err = fmt.Errorf("the queue panicked: %v (trace %v)", panics[0], s.Trace)
		return o
	}
	// quiescent: drain the rest on this goroutine (not managed: points return immediately)
	for {
		it := q.TryPop()
		if it == nil {
			break
		}
		popped = append(popped, *it)
	}
	total := 0
	for _, a := range accepted {
		total += len(a)
	}
	next := make([]int, len(c.Producers))
	for _, it := range popped {
		if it.pid < 0 || it.pid >= len(c.Producers) {
			o.Err = fmt.Errorf("phantom element %+v", it)
			return o
		}
		if next[it.pid] >= len(accepted[it.pid]) || accepted[it.pid][next[it.pid]] != it.seq {
			o.Err = fmt.Errorf("producer %d: consumed seq %d, expected the %d-th accepted push %v (lost, duplicated or reordered); trace %v", it.pid, it.seq, next[it.pid], accepted[it.pid], s.Trace)
			return o
		}
		next[it.pid]++
	}
	if len(popped) != total {
		o.Err = fmt.Errorf("%d events accepted, %d consumed; trace %v", total, len(popped), s.Trace)
		return o
	}
	if !q.IsEmpty() || q.Size() != 0 {
		o.Err = fmt.Errorf("queue not empty after the final drain: Size()=%d", q.Size())
		return o
	}
	if total > capacity+len(popped) {
		o.Err = fmt.Errorf("accepted %d events with capacity %d", total, capacity)
	}
	grew := total > int(xmath.RoundUpPowerOf2(c.Init))
	o.NonTrivial = len(c.Producers) >= 2 && grew
	if grew {
		o.Classes = append(o.Classes, "grew")
	}
	if refusedAt > 0 {
		o.Classes = append(o.Classes, "refusal")
	}
	if s.Fired > 0 {
		o.Classes = append(o.Classes, "consumer-spun-on-unpublished-slot")
	}
	o.Sig = vh.Sig(fmt.Sprint(c.Init, c.Max, c.Producers, c.Pops), fmt.Sprint(s.Trace))
	return o
}

func TestC16_S3(t *testing.T) {
	propMain(t, propSpec[mpscS3Case]{
		Prop: "C16", Test: "S3",
		Rule: "hook-point cooperative scheduling on queue.MPSC (initial 2/4, maximum 4/8/16): 1-4 producer threads with 1-12 pushes and one consumer thread are parked between the producer-index CAS and the element store and at three points inside resize; the generated []int is the schedule " +
			"(a consumer spinning on a reserved-but-unpublished slot is handed over by the watchdog); oracle: consumed sequence per producer == its accepted pushes in order, nothing lost/duplicated/phantom after the final drain, queue empty; non-trivial = >= 2 producers and growth past the initial chunk",
		Gen: genMPSCS3, Run: runMPSCS3,
	})
}

type ringS3Case struct {
	MaxLen    int   `json:"max_len"`
	Recorders []int `json:"recorders"` // adds per recorder
	Drains    int   `json:"drains"`
	Schedule  []int `json:"schedule"`
}

func genRingS3(t *rapid.T) ringS3Case {
	c := ringS3Case{MaxLen: pick(t, "maxlen", 1, 1, 4)}
	n := rapid.IntRange(1, 4).Draw(t, "recorders")
	for i := 0; i < n; i++ {
		c.Recorders = append(c.Recorders, rapid.IntRange(1, 25).Draw(t, "adds"))
	}
	c.Drains = rapid.IntRange(0, 6).Draw(t, "drains")
	c.Schedule = rapid.SliceOfN(rapid.IntRange(0, 7), 0, 300).Draw(t, "schedule")
	return c
}

func runRingS3(c ringS3Case) outcome {
	var o outcome
	s := vh.NewSched(c.Schedule)
	defer s.Close()
	s.Watchdog = time.Millisecond
	nm := node.NewManager[int, int](node.Config{WithSize: true})
	st := lossy.NewStriped(c.MaxLen, nm)
	success := map[int]bool{}
	delivered := map[int]int{}
	var smu chan struct{} = make(chan struct{}, 1)
	smu <- struct{}{}
	maxLen := 0
	fulls := 0
	for r, n := range c.Recorders {
		r, n := r, n
		s.Go("r", func() {
			for i := 0; i < n; i++ {
				id := r*1000 + i
				res := st.Add(nm.Create(id, id, 0, 0, 1))
				<-smu
				if res == lossy.Success {
					success[id] = true
				} else if res == lossy.Full {
					fulls++
				}
				smu <- struct{}{}
			}
		})
	}
	drain := func() {
		st.DrainTo(func(n node.Node[int, int]) {
			<-smu
			delivered[n.Key()]++
			smu <- struct{}{}
		})
		if l := st.Len(); l > maxLen {
			maxLen = l
		}
	}
	s.Go("c", func() {
		for i := 0; i < c.Drains; i++ {
			drain()
		}
	})
	panics := s.Run(5 * time.Second)
	if s.Hang {
		o.Inconcl = true
		return o
	}
	if len(panics) > 0 {
		o.Err = fmt.Errorf("the buffer panicked: %v", panics[0])
		return o
	}
	drain()
	drain()
	for id, n := range delivered {
		if n > 1 {
			o.Err = fmt.Errorf("entry %d delivered %d times; trace %v", id, n, s.Trace)
			return o
		}
		if !success[id] {
			o.Err = fmt.Errorf("entry %d delivered although its add did not report Success; trace %v", id, s.Trace)
			return o
		}
	}
	for id := range success {
		if delivered[id] != 1 {
			o.Err = fmt.Errorf("entry %d was recorded successfully but not delivered by the quiescent drain; trace %v", id, s.Trace)
			return o
		}
	}
	if st.Len() != 0 {
		o.Err = fmt.Errorf("Len()=%d after the quiescent drain", st.Len())
		return o
	}
	if maxLen > ringSize*c.MaxLen {
		o.Err = fmt.Errorf("Len() reached %d, capacity %d", maxLen, ringSize*c.MaxLen)
	}
	o.NonTrivial = len(c.Recorders) >= 2 && len(success) > 0
	if fulls > 0 {
		o.Classes = append(o.Classes, "full-observed")
	}
	o.Sig = vh.Sig(fmt.Sprint(c.MaxLen, c.Recorders, c.Drains), fmt.Sprint(s.Trace))
	return o
}

func TestC17_S3(t *testing.T) {
	propMain(t, propSpec[ringS3Case]{
		Prop: "C17", Test: "S3",
		Rule: "hook-point cooperative scheduling on lossy.Striped (maxLen 1 or 4): 1-4 recorder threads with 1-25 adds of unique nodes and one draining consumer are parked between the tail CAS and the slot store and, in the consumer, between clearing a slot and handing the node on; the generated []int is the schedule; " +
			"oracle: every delivered node was recorded successfully, none twice, and after the threads finished a quiescent drain has delivered every successful add, Len()==0; non-trivial = >= 2 recorders with at least one success",
		Gen: genRingS3, Run: runRingS3,
	})
}
