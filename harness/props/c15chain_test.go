package props

import (
	"fmt"
	"runtime"
	"testing"

	"github.com/maypok86/otter/v2/internal/hashmap"
	"github.com/maypok86/otter/v2/verifharness/vh"
	"pgregory.net/rapid"
)

// C15 quantifies over "all key sets including heavy hash collisions within a bucket chain". Every table of the map
// draws a fresh random hash seed, so no fixed key set collides; with uniformly hashed keys a chain holds one or two
// overflow buckets at most, and the code that walks, fills, empties and copies long chains (deletion in the middle of
// a chain, reuse of a freed slot in an earlier bucket, equal 7-bit meta hashes of different keys, a lock-free Get that
// walks a chain while it is being rewritten, the resize copy of a long chain) never runs under an oracle. The
// read-only probe VerifBucketOf tells the harness which root bucket and meta hash the *current* table gives a key;
// chainKeys uses it to translate logical keys into integers that all land in one to three chosen chains.

type chainKeys struct {
	m       *hmap
	buckets int // number of target chains (root buckets 0..buckets-1)
	metas   int // 0: any meta hash; n > 0: logical key i gets the meta hash 1 + i mod n
	fwd     map[int]int
	bwd     map[int]int
	cursor  int
}

func newChainKeys(m *hmap, buckets, metas int) *chainKeys {
	return &chainKeys{m: m, buckets: buckets, metas: metas, fwd: map[int]int{}, bwd: map[int]int{}, cursor: 1}
}

// keyOf returns the integer standing for the logical key; a new logical key is given the next unused integer that the
// current table puts into the logical key's target chain (and meta class).
func (ck *chainKeys) keyOf(logical int) int {
	if k, ok := ck.fwd[logical]; ok {
		return k
	}
	tb := logical % ck.buckets
	if tb < 0 {
		tb = -tb
	}
	tm := -1
	if ck.metas > 0 {
		tm = 1 + (logical/ck.buckets)%ck.metas
	}
	k := ck.cursor
	for tries := 0; tries < 400_000; tries++ {
		b, meta := ck.m.VerifBucketOf(k)
		if b == tb && (tm < 0 || int(meta) == tm) {
			break
		}
		k++
	}
	ck.cursor = k + 1
	ck.fwd[logical] = k
	ck.bwd[k] = logical
	return k
}

type hmChainCase struct {
	Procs   int    `json:"gomaxprocs"`
	InitCap int    `json:"init_cap"`
	Buckets int    `json:"target_chains"`
	Metas   int    `json:"meta_classes"`
	Ops     []hmOp `json:"ops"`
}

func genHMChain(t *rapid.T) hmChainCase {
	var c hmChainCase
	c.Procs = pick(t, "procs", 16, 1, 3)
	c.InitCap = pick(t, "initcap", 0, 0, 200, 1000)
	c.Buckets = pick(t, "chains", 1, 1, 2, 3)
	if c.InitCap <= 200 {
		c.Metas = pick(t, "metas", 0, 0, 1, 2)
	}
	space := pick(t, "space", 8, 40, 110, 110, 300, 300)
	// most cases start from chains that are already long
	var first []hmOp
	if rapid.IntRange(0, 3).Draw(t, "prefill") > 0 {
		first = []hmOp{{Kind: "fill", Key: 0, N: rapid.IntRange(min(20, space), min(space, 130)).Draw(t, "prefilln")}}
	}
	c.Ops = rapid.SliceOfN(rapid.Custom(func(t *rapid.T) hmOp {
		k := rapid.IntRange(0, 99).Draw(t, "kind")
		key := rapid.IntRange(0, space-1).Draw(t, "key")
		switch {
		case k < 30:
			return hmOp{Kind: "put", Key: key}
		case k < 52:
			return hmOp{Kind: "del", Key: key}
		case k < 57:
			return hmOp{Kind: "noop", Key: key}
		case k < 75:
			return hmOp{Kind: "get", Key: key}
		case k < 81:
			return hmOp{Kind: "range", N: rapid.IntRange(0, 50).Draw(t, "stopafter")}
		case k < 82:
			return hmOp{Kind: "clear"}
		case k < 92:
			return hmOp{Kind: "fill", Key: rapid.IntRange(0, space).Draw(t, "from"), N: rapid.IntRange(1, 130).Draw(t, "n")}
		default:
			return hmOp{Kind: "drain", Key: rapid.IntRange(0, space).Draw(t, "from"), N: rapid.IntRange(1, 200).Draw(t, "n")}
		}
	}), 1, 120).Draw(t, "ops")
	c.Ops = append(first, c.Ops...)
	return c
}

func runHMChain(c hmChainCase) outcome {
	var o outcome
	if c.Procs > 0 {
		defer runtime.GOMAXPROCS(runtime.GOMAXPROCS(c.Procs))
	}
	if c.Buckets < 1 {
		c.Buckets = 1
	}
	m := hashmap.NewWithSize[int, int, *hnode](hmgr{}, c.InitCap)
	ck := newChainKeys(m, c.Buckets, c.Metas)
	model := map[int]int{} // actual key -> version
	ver := 0
	peak := 0
	peakAtGrowth := 0
	deletesInLong := 0
	fail := func(i int, f string, a ...any) outcome {
		o.Err = fmt.Errorf("op %d: "+f, append([]any{i}, a...)...)
		return o
	}
	put := func(i, logical int) error {
		key := ck.keyOf(logical)
		ver++
		calls := 0
		nn := &hnode{key, ver}
		old, had := model[key]
		got := m.Compute(key, func(n *hnode) *hnode {
			calls++
			if had != (n != nil) || (n != nil && (n.v != old || n.k != key)) {
				calls += 100
			}
			return nn
		})
		if calls != 1 {
			return fmt.Errorf("op %d: Compute(put logical key %d = %d): callback calls/precondition code %d (1 = once with the right old node)", i, logical, key, calls)
		}
		if got != nn {
			return fmt.Errorf("op %d: Compute(put logical key %d = %d) did not return the new node", i, logical, key)
		}
		model[key] = ver
		return nil
	}
	del := func(i, logical int) error {
		key := ck.keyOf(logical)
		calls := 0
		old, had := model[key]
		got := m.Compute(key, func(n *hnode) *hnode {
			calls++
			if had != (n != nil) || (n != nil && (n.v != old || n.k != key)) {
				calls += 100
			}
			return nil
		})
		if calls != 1 || got != nil {
			return fmt.Errorf("op %d: Compute(delete logical key %d = %d): callback code %d, returned %v", i, logical, key, calls, got)
		}
		if had && peak >= 3 {
			deletesInLong++
		}
		delete(model, key)
		return nil
	}
	for i, op := range c.Ops {
		g0, _ := m.VerifResizes()
		before := m.VerifMaxChain()
		switch op.Kind {
		case "put":
			if err := put(i, op.Key); err != nil {
				o.Err = err
				return o
			}
		case "del":
			if err := del(i, op.Key); err != nil {
				o.Err = err
				return o
			}
		case "noop":
			key := ck.keyOf(op.Key)
			calls := 0
			got := m.Compute(key, func(n *hnode) *hnode { calls++; return n })
			want, had := model[key]
			if calls != 1 || (got != nil) != had || (got != nil && (got.v != want || got.k != key)) {
				return fail(i, "Compute(no-op logical key %d = %d): calls %d, returned %v, model (%d,%v)", op.Key, key, calls, got, want, had)
			}
		case "get":
			key := ck.keyOf(op.Key)
			got := m.Get(key)
			want, had := model[key]
			if (got != nil) != had || (got != nil && (got.v != want || got.k != key)) {
				return fail(i, "Get(logical key %d = %d) = %v, model (%d,%v)", op.Key, key, got, want, had)
			}
		case "range":
			seen := map[int]int{}
			n := 0
			m.Range(func(x *hnode) bool {
				seen[x.k]++
				if w, ok := model[x.k]; !ok || w != x.v {
					seen[x.k] += 1000
				}
				n++
				return op.N == 0 || n < op.N
			})
			for k, cnt := range seen {
				if cnt != 1 {
					return fail(i, "Range yielded key %d (logical %d) with code %d (1 = once, current value)", k, ck.bwd[k], cnt)
				}
			}
			if op.N == 0 && len(seen) != len(model) {
				return fail(i, "Range yielded %d keys, model holds %d", len(seen), len(model))
			}
			if op.N > 0 && n > op.N {
				return fail(i, "Range continued after the callback returned false")
			}
		case "clear":
			m.Clear()
			model = map[int]int{}
		case "fill":
			for k := op.Key; k < op.Key+op.N; k++ {
				if err := put(i, k); err != nil {
					o.Err = err
					return o
				}
			}
		case "drain":
			for k := op.Key; k < op.Key+op.N; k++ {
				if err := del(i, k); err != nil {
					o.Err = err
					return o
				}
			}
		}
		if sz := m.Size(); sz != len(model) {
			return fail(i, "Size()=%d after %s, model holds %d", sz, op.Kind, len(model))
		}
		peak = max(peak, m.VerifMaxChain())
		if g1, _ := m.VerifResizes(); g1 > g0 {
			peakAtGrowth = max(peakAtGrowth, before)
		}
		// every key of the model must be found after every operation (chains are short enough to afford it)
		if len(model) <= 400 {
			for k, w := range model {
				if got := m.Get(k); got == nil || got.v != w || got.k != k {
					return fail(i, "after %s: key %d (logical %d) lost or stale: %v, want value %d", op.Kind, k, ck.bwd[k], got, w)
				}
			}
		}
	}
	for k, w := range model {
		if got := m.Get(k); got == nil || got.v != w {
			o.Err = fmt.Errorf("final: key %d (logical %d) lost or stale: %v, want value %d", k, ck.bwd[k], got, w)
			return o
		}
	}
	o.NonTrivial = peak >= 4 && deletesInLong > 0
	for _, th := range []int{4, 10, 20} {
		if peak >= th {
			o.Classes = append(o.Classes, fmt.Sprintf("chain>=%d-buckets", th))
		}
	}
	if peakAtGrowth >= 4 {
		o.Classes = append(o.Classes, "grew-with-long-chain")
	}
	if c.Metas > 0 && peak >= 3 {
		o.Classes = append(o.Classes, "equal-meta-hashes")
	}
	o.Sig = vh.Sig(fmt.Sprint(c))
	return o
}

func TestC15_ChainSeq(t *testing.T) {
	propMain(t, propSpec[hmChainCase]{
		Prop: "C15", Test: "ChainSeq",
		Rule: "single-goroutine sequences (1-120 ops incl. fills/drains of up to 130/200 keys) on internal/hashmap.Map over key sets chosen, through the read-only probe of the current table's hash, to fall into 1-3 bucket chains (optionally with only 1-2 distinct 7-bit meta hashes), tables of 32/64/512 root buckets, against a Go map: " +
			"callbacks run exactly once with the current node, results and Size agree after every op, every key of the model is found after every op, Range yields every key exactly once with its current value; non-trivial = some chain reached >= 4 linked buckets (>= 16 colliding keys) and keys were deleted out of such a chain",
		Gen: genHMChain, Run: runHMChain,
	})
}
