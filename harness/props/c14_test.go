package props

import (
	"fmt"
	"sync"
	"sync/atomic"
	"testing"
	"time"

	"github.com/maypok86/otter/v2"
	"github.com/maypok86/otter/v2/verifharness/vh"
	"pgregory.net/rapid"
)

type c14Op struct {
	Kind string `json:"kind"` // set setifabsent compute invalidate get invalidateall getmaximum coldest setmaximum weightedsize hottest
	Key  int    `json:"key"`
}

type c14Case struct {
	Max      int       `json:"max"`
	Threads  [][]c14Op `json:"threads"`
	Schedule []int     `json:"schedule"`
	Prefill  int       `json:"prefill"`
}

func genC14(t *rapid.T) c14Case {
	c := c14Case{Max: rapid.IntRange(1, 4).Draw(t, "max"), Prefill: rapid.IntRange(0, 4).Draw(t, "prefill")}
	nt := rapid.IntRange(1, 4).Draw(t, "threads")
	kinds := []string{"set", "set", "set", "set", "set", "set", "setifabsent", "compute", "invalidate", "get", "get", "invalidateall", "getmaximum", "coldest", "setmaximum", "weightedsize", "hottest"}
	for i := 0; i < nt; i++ {
		ops := rapid.SliceOfN(rapid.Custom(func(t *rapid.T) c14Op {
			return c14Op{Kind: kinds[rapid.IntRange(0, len(kinds)-1).Draw(t, "kind")], Key: rapid.IntRange(0, 5).Draw(t, "key")}
		}), 1, 6).Draw(t, "ops")
		c.Threads = append(c.Threads, ops)
	}
	c.Schedule = rapid.SliceOfN(rapid.IntRange(0, 7), 0, 400).Draw(t, "schedule")
	return c
}

func runC14(c c14Case) outcome {
	var o outcome
	s := vh.NewSched(c.Schedule)
	defer s.Close()
	var atomicEv, asyncEv atomic.Int64
	var valCtr atomic.Int64
	restore := otter.VerifSetDefaultExecutor(func(fn func()) { s.Go("exec", fn) })
	defer restore()
	cache := otter.Must(&otter.Options[int, int]{
		MaximumSize:      c.Max,
		OnAtomicDeletion: func(e otter.DeletionEvent[int, int]) { atomicEv.Add(1) },
		OnDeletion:       func(e otter.DeletionEvent[int, int]) { asyncEv.Add(1) },
		Logger:           &vh.RecLogger{},
	})
	defer cache.StopAllGoroutines()
	// observe the drain status at the scheduling points (histogram + non-triviality)
	var obsMu sync.Mutex
	sawProcessing := false
	trans := map[string]int{}
	last := uint32(99)
	s.OnPoint = func(thread, id string) {
		st := cache.VerifDrainStatus()
		obsMu.Lock()
		if id == "saw.loop" && st >= 2 {
			sawProcessing = true
		}
		if last != 99 && last != st {
			trans[fmt.Sprintf("%d->%d", last, st)]++
		}
		last = st
		obsMu.Unlock()
	}
	// prefill through a first thread so that its maintenance is scheduled too
	if c.Prefill > 0 {
		s.Go("prefill", func() {
			for i := 0; i < c.Prefill; i++ {
				cache.Set(100+i, int(valCtr.Add(1)))
			}
		})
	}
	for _, ops := range c.Threads {
		ops := ops
		s.Go("w", func() {
			for _, op := range ops {
				v := int(valCtr.Add(1))
				switch op.Kind {
				case "set":
					cache.Set(op.Key, v)
				case "setifabsent":
					cache.SetIfAbsent(op.Key, v)
				case "compute":
					cache.Compute(op.Key, func(old int, found bool) (int, otter.ComputeOp) {
						if found && old%3 == 0 {
							return 0, otter.InvalidateOp
						}
						return v, otter.WriteOp
					})
				case "invalidate":
					cache.Invalidate(op.Key)
				case "get":
					cache.GetIfPresent(op.Key)
				case "invalidateall":
					cache.InvalidateAll()
				case "getmaximum":
					cache.GetMaximum()
				case "weightedsize":
					cache.WeightedSize()
				case "setmaximum":
					// holds the eviction lock, runs a maintenance cycle (evictions are hook points) and must hand over to another
					// run when a write arrived meanwhile; the bound is lowered and restored so that the final oracle still uses c.Max
					cache.SetMaximum(uint64(max(1, c.Max-1)))
					cache.SetMaximum(uint64(c.Max))
				case "hottest":
					n := 0
					for range cache.Hottest() {
						n++
						if n == 1 {
							break // left early
						}
					}
				case "coldest":
					// an iteration under the eviction lock (the hook handler parks inside it when entries are evicted);
					// it must not be the thread's last operation, otherwise its own maintenance could hide a stranded write
					n := 0
					for range cache.Coldest() {
						n++
					}
				}
			}
		})
	}
	panics := s.Run(5 * time.Second)
	s.OnPoint = nil // the cache's executor closure references the scheduler: do not let it reference the *Cache back
	if s.Hang {
		o.Inconcl = true
		return o
	}
	if len(panics) > 0 {
		o.Err = fmt.Errorf("a thread panicked: %v", panics[0])
		return o
	}
	// Quiescent: every thread, including every goroutine the cache started, has finished.
	// No further cache call that could run maintenance is made before judging.
	st := cache.VerifDrainStatus()
	wb := cache.VerifWriteBufferSize()
	sz := cache.EstimatedSize()
	a, d := atomicEv.Load(), asyncEv.Load()
	tail := s.Trace
	if len(tail) > 60 {
		tail = tail[len(tail)-60:]
	}
	switch {
	case wb != 0:
		o.Err = fmt.Errorf("stranded maintenance: all cache calls returned and every goroutine the cache started finished, but %d write event(s) are still in the write buffer (drain status %d); trace tail: %v", wb, st, tail)
	case st != 0:
		o.Err = fmt.Errorf("stranded maintenance: at quiescence the drain status is %d (0=idle 1=required 2/3=processing) with an empty write buffer; trace tail: %v", st, tail)
	case sz > c.Max:
		o.Err = fmt.Errorf("at quiescence %d entries are present, maximum is %d (size bound not restored without a further call); trace tail: %v", sz, c.Max, tail)
	case a != d:
		o.Err = fmt.Errorf("at quiescence %d removals were reported atomically but only %d OnDeletion notifications were delivered", a, d)
	}
	obsMu.Lock()
	o.NonTrivial = sawProcessing
	for k := range trans {
		o.Classes = append(o.Classes, "drain-status:"+k)
	}
	obsMu.Unlock()
	if s.Fired > 0 {
		o.Classes = append(o.Classes, "watchdog-fired")
	}
	o.Sig = vh.Sig(fmt.Sprint(c.Max, c.Prefill, c.Threads), fmt.Sprint(s.Trace))
	return o
}

func TestC14_DrainProtocol(t *testing.T) {
	propMain(t, propSpec[c14Case]{
		Prop: "C14", Test: "DrainProtocol",
		Rule: "hook-point cooperative scheduling: 1-4 writer/reader threads with 1-6 operations each (Set, SetIfAbsent, Compute, Invalidate, GetIfPresent, and - rarely - InvalidateAll, GetMaximum, WeightedSize, SetMaximum and (complete or abandoned) Hottest/Coldest traversals, which take the eviction lock with or without running maintenance) on a MaximumSize 1..4 cache with Options.Executor nil; the default executor is swapped for one whose goroutines are adopted as logical threads; " +
			"every thread parks at each verif hook point (after the table computation, after the write-buffer push, scheduleAfterWrite loop head, scheduleDrainBuffers entry and after its try-lock, drainBuffers entry, maintenance after the drain and before its final CAS, rescheduleCleanUpIfIncomplete, around evictions, inside the MPSC push/resize) " +
			"and a generated []int picks which parked thread runs next (2 ms watchdog hands control on when a thread blocks on a mutex or spins); oracle once every thread and every cache-started goroutine has finished, without any further cache call: drain status idle, write buffer empty, EstimatedSize <= maximum, #OnDeletion == #OnAtomicDeletion; " +
			"non-trivial = some scheduleAfterWrite observed a processing drain status; distinct = program + resulting hook trace; a scheduler hang (5 s) is inconclusive",
		Assumptions: []string{"interleavings are explored at hook-point granularity; the watchdog can only add legal concurrency", "liveness is judged as 'the quiescent state has no pending work'"},
		Gen:         genC14, Run: runC14,
	})
}
