package props

import (
	"fmt"
	"sync"
	"testing"
	"testing/synctest"
	"time"

	"github.com/maypok86/otter/v2"
	"github.com/maypok86/otter/v2/verifharness/vh"
	"pgregory.net/rapid"
)

// C13 clock gate: a write samples the clock at its start. Here a Set is parked
// inside Clock.NowNano (after the value T0 it will return has been fixed); the
// script then moves the clock and runs maintenance at later times, and only
// then lets the write continue, so that its entry is scheduled on a timer wheel
// whose notion of "now" is already past the entry's deadline.

type c13Action struct {
	Op  string `json:"op"` // gset set advance cleanup release prefill
	TTL int64  `json:"ttl,omitempty"`
	Dur int64  `json:"dur,omitempty"`
	Idx int    `json:"idx,omitempty"`
}

type c13Case struct {
	Deferred bool        `json:"deferred"` // executor queues tasks (run only after CleanUp actions)
	Bounded  bool        `json:"bounded"`
	Actions  []c13Action `json:"actions"`
}

func genC13Gate(t *rapid.T) c13Case {
	c := c13Case{Deferred: rapid.Bool().Draw(t, "deferred"), Bounded: rapid.IntRange(0, 3).Draw(t, "bounded") == 0}
	ops := []string{"gset", "gset", "set", "advance", "advance", "advance", "cleanup", "cleanup", "release", "release", "tick"}
	if c.Deferred {
		ops = append(ops, "prefill")
	}
	ttl := func(t *rapid.T) int64 {
		switch rapid.IntRange(0, 4).Draw(t, "ttlcls") {
		case 0:
			return int64(rapid.IntRange(1, 1000).Draw(t, "ttl"))
		case 1:
			return vh.Tick/2 + int64(rapid.IntRange(-5, 5).Draw(t, "ttl"))
		case 2:
			return vh.Tick * int64(rapid.IntRange(1, 5).Draw(t, "ttl"))
		case 3:
			return vh.Tick * int64(rapid.IntRange(60, 70).Draw(t, "ttl"))
		default:
			return int64(rapid.IntRange(1, 3600).Draw(t, "ttls")) * 1_000_000_000
		}
	}
	c.Actions = rapid.SliceOfN(rapid.Custom(func(t *rapid.T) c13Action {
		a := c13Action{Op: ops[rapid.IntRange(0, len(ops)-1).Draw(t, "op")]}
		switch a.Op {
		case "gset", "set":
			a.TTL = ttl(t)
		case "advance":
			switch rapid.IntRange(0, 3).Draw(t, "advcls") {
			case 0:
				a.Dur = int64(rapid.IntRange(1, 5000).Draw(t, "adv"))
			case 1:
				a.Dur = vh.Tick + int64(rapid.IntRange(1, 1000).Draw(t, "adv"))
			case 2:
				a.Dur = vh.Tick * int64(rapid.IntRange(2, 80).Draw(t, "adv"))
			default:
				a.Dur = int64(rapid.IntRange(1, 7200).Draw(t, "advs")) * 1_000_000_000
			}
		case "release":
			a.Idx = rapid.IntRange(0, 3).Draw(t, "idx")
		}
		return a
	}), 1, 40).Draw(t, "actions")
	return c
}

type c13Write struct {
	key        int
	ttl        int64
	sampled    int64 // the clock value the write used
	returnedAt int64 // clock value when the call returned (-1 while parked)
	reported   bool
	gated      bool
	gate       chan struct{}
	parked     bool
}

func runC13Gate(c c13Case) outcome {
	var o outcome
	var verr error
	behindWheel, obligations, prefilled, ticks := 0, 0, false, 0
	func() {
		defer func() {
			if r := recover(); r != nil {
				verr = fmt.Errorf("bubble did not terminate cleanly: %v", r)
			}
		}()
		synctest.Test(s2T, func(t *testing.T) {
			var mu sync.Mutex
			var writes []*c13Write
			byKey := map[int]*c13Write{}
			var armed *c13Write // the next NowNano call belongs to this write
			clock := &vh.ManualClock{}
			clock.Set(1_000_000_000_000)
			clock.TickCh = make(chan time.Time) // created inside the bubble: the periodic clean-up goroutine blocks on it durably
			clock.Gate = func(now int64) {
				mu.Lock()
				w := armed
				armed = nil
				mu.Unlock()
				if w == nil {
					return
				}
				w.sampled = now
				w.parked = true
				<-w.gate // parked inside NowNano: the value `now` is what the write will see
			}
			exec := &vh.Executor{Deferred: c.Deferred}
			opts := &otter.Options[int, int]{
				Clock:    clock,
				Executor: exec.Exec,
				Logger:   &vh.RecLogger{},
				ExpiryCalculator: otter.ExpiryCreatingFunc(func(e otter.Entry[int, int]) time.Duration {
					mu.Lock()
					defer mu.Unlock()
					return time.Duration(byKey[e.Key].ttl)
				}),
				OnDeletion: func(e otter.DeletionEvent[int, int]) {
					mu.Lock()
					if w := byKey[e.Key]; w != nil && e.Cause == otter.CauseExpiration {
						w.reported = true
					}
					mu.Unlock()
				},
			}
			if c.Bounded {
				opts.MaximumSize = 100000
			}
			cache := otter.Must(opts)
			defer cache.StopAllGoroutines()
			var wg sync.WaitGroup
			nextKey := 0
			newWrite := func(ttl int64, gated bool) *c13Write {
				mu.Lock()
				w := &c13Write{key: nextKey, ttl: ttl, returnedAt: -1, gated: gated, gate: make(chan struct{})}
				nextKey++
				writes = append(writes, w)
				byKey[w.key] = w
				mu.Unlock()
				return w
			}
			runQueued := func() {
				for i := 0; i < 100000 && exec.RunOne(); i++ {
				}
			}
			// the sweep obligation at clock T (after a maintenance run with nothing in flight)
			sweepOracle := func(what string) {
				T := clock.Now()
				mu.Lock()
				defer mu.Unlock()
				for _, w := range writes {
					if w.returnedAt < 0 || w.parked {
						continue // in flight: outside the statement
					}
					deadline := w.sampled + w.ttl
					if !w.reported && deadline+vh.Tick < T && w.returnedAt < T-vh.Tick {
						verr = fmt.Errorf("%s at clock %d: key %d (ttl %d, clock sampled by its write %d, write returned at %d) expired at %d, more than one tick (2^30 ns) ago, but it has not been swept: no Expiration event, EstimatedSize()=%d",
							what, T, w.key, w.ttl, w.sampled, w.returnedAt, deadline, cache.EstimatedSize())
					}
					if deadline+vh.Tick < T && w.returnedAt < T-vh.Tick {
						obligations++
					}
				}
			}
			for i := range c.Actions {
				a := &c.Actions[i]
				switch a.Op {
				case "tick":
					// the clock's ticker fires: the cache's own goroutine runs the maintenance, nobody calls CleanUp
					synctest.Wait()
					mu.Lock()
					inflight := false
					for _, w := range writes {
						if w.parked || (w.gated && w.returnedAt < 0) {
							inflight = true
						}
					}
					mu.Unlock()
					clock.TickCh <- time.Time{}
					synctest.Wait()
					runQueued()
					ticks++
					if !inflight {
						sweepOracle("periodic clean-up (clock tick)")
					}
				case "set":
					w := newWrite(a.TTL, false)
					w.sampled = clock.Now()
					cache.Set(w.key, w.key)
					w.returnedAt = clock.Now()
				case "gset":
					w := newWrite(a.TTL, true)
					mu.Lock()
					armed = w
					mu.Unlock()
					wg.Add(1)
					go func() {
						defer wg.Done()
						cache.Set(w.key, w.key)
						mu.Lock()
						w.returnedAt = clock.Now()
						mu.Unlock()
					}()
				case "release":
					mu.Lock()
					var parked []*c13Write
					for _, w := range writes {
						if w.parked {
							parked = append(parked, w)
						}
					}
					mu.Unlock()
					if len(parked) > 0 {
						w := parked[a.Idx%len(parked)]
						w.parked = false
						if wt := cache.VerifWheelTime(); wt > uint64(w.sampled+w.ttl) {
							behindWheel++
						}
						close(w.gate)
					}
				case "advance":
					clock.Advance(a.Dur)
				case "prefill":
					// fill the write buffer so that the next write falls back to caller-runs maintenance
					if !prefilled {
						prefilled = true
						for j := 0; j < 2100; j++ {
							w := newWrite(3600_000_000_000*24*365, false)
							w.sampled = clock.Now()
							cache.Set(w.key, w.key)
							w.returnedAt = clock.Now()
						}
					}
				case "cleanup":
					synctest.Wait()
					cache.CleanUp()
					runQueued()
					cache.CleanUp()
					runQueued()
					sweepOracle("CleanUp")
				}
				synctest.Wait()
				if verr != nil {
					break
				}
			}
			// let parked writes go
			mu.Lock()
			for _, w := range writes {
				if w.parked {
					w.parked = false
					close(w.gate)
				}
			}
			mu.Unlock()
			synctest.Wait()
			wg.Wait()
			runQueued()
		})
	}()
	o.Err = verr
	o.NonTrivial = behindWheel > 0 && obligations > 0
	if behindWheel > 0 {
		o.Classes = append(o.Classes, "write-scheduled-behind-wheel-time")
	}
	if obligations > 0 {
		o.Classes = append(o.Classes, "sweep-obligations")
	}
	if prefilled {
		o.Classes = append(o.Classes, "write-buffer-full")
	}
	if ticks > 0 {
		o.Classes = append(o.Classes, "periodic-clean-up-tick")
	}
	o.Sig = vh.Sig(fmt.Sprint(c))
	return o
}

func TestC13_ClockGate(t *testing.T) {
	s2T = t
	propMain(t, propSpec[c13Case]{
		Prop: "C13", Test: "ClockGate",
		Rule: "scripts in a testing/synctest bubble: 'gset' starts a Set whose first Clock.NowNano call is parked after fixing the value T0 it returns, the script then advances the clock (ns .. hours) and runs CleanUp (the timer wheel's time moves past T0+ttl), and 'release' lets the write continue, so its entry is scheduled behind the wheel's time; " +
			"plain sets, TTLs from 1 ns to an hour, inline or queued executor, optionally a full write buffer (caller-runs maintenance); every write uses a fresh key; 'tick' fires the clock's ticker so that the cache's own periodic clean-up goroutine runs the maintenance (no CleanUp call by the script); oracle at every CleanUp / tick at clock T: each write that has returned before T - 2^30 ns and whose deadline (sampled clock + ttl) + 2^30 ns < T has had its Expiration event delivered; " +
			"non-trivial = at least one write was released when the wheel time was already past its deadline and at least one obligation was checked",
		Assumptions: []string{"the clock value a write uses is the one returned by its first NowNano call; writes still parked at a CleanUp are outside the statement ('no operation in flight')"},
		Gen:         genC13Gate, Run: runC13Gate,
	})
}
