package props

import (
	"fmt"
	"runtime"
	"sync"
	"sync/atomic"
	"testing"

	"github.com/maypok86/otter/v2/internal/generated/node"
	"github.com/maypok86/otter/v2/internal/lossy"
	"github.com/maypok86/otter/v2/verifharness/vh"
	"pgregory.net/rapid"
)

const ringSize = 16

// ---- sequential model ----------------------------------------------------

type lossySeqCase struct {
	MaxLen int   `json:"max_len"`
	Ops    []int `json:"ops"` // >0: that many adds, 0: drain, -1: Len probe
}

func genLossySeq(t *rapid.T) lossySeqCase {
	var c lossySeqCase
	c.MaxLen = pick(t, "maxlen", 1, 4, 16, 64)
	c.Ops = rapid.SliceOfN(rapid.Custom(func(t *rapid.T) int {
		switch rapid.IntRange(0, 5).Draw(t, "k") {
		case 0:
			return 0
		case 1:
			return -1
		default:
			return rapid.IntRange(1, 40).Draw(t, "adds")
		}
	}), 1, 60).Draw(t, "ops")
	return c
}

func runLossySeq(c lossySeqCase) outcome {
	var o outcome
	nm := node.NewManager[int, int](node.Config{WithSize: true})
	s := lossy.NewStriped(c.MaxLen, nm)
	var held []int // keys successfully recorded and not yet drained (one ring: sequential use never contends)
	next := 0
	fulls, wraps := 0, 0
	drained := 0
	for i, op := range c.Ops {
		switch {
		case op > 0:
			for j := 0; j < op; j++ {
				n := nm.Create(next, next, 0, 0, 1)
				st := s.Add(n)
				switch st {
				case lossy.Success:
					if len(held) >= ringSize {
						o.Err = fmt.Errorf("op %d: Add succeeded although the ring already holds %d entries", i, len(held))
						return o
					}
					held = append(held, next)
				case lossy.Full:
					fulls++
					if len(held) < ringSize {
						o.Err = fmt.Errorf("op %d: Add reported Full although only %d of %d slots are used", i, len(held), ringSize)
						return o
					}
				default:
					o.Err = fmt.Errorf("op %d: Add reported a CAS failure without any concurrency", i)
					return o
				}
				next++
			}
		case op == 0:
			var got []int
			s.DrainTo(func(n node.Node[int, int]) { got = append(got, n.Key()) })
			if len(got) != len(held) {
				o.Err = fmt.Errorf("op %d: drain delivered %v, recorded and undelivered were %v", i, got, held)
				return o
			}
			for j := range got {
				if got[j] != held[j] {
					o.Err = fmt.Errorf("op %d: drain delivered %v, recorded and undelivered were %v", i, got, held)
					return o
				}
			}
			drained += len(got)
			if drained > ringSize {
				wraps++
			}
			held = held[:0]
		}
		if l := s.Len(); l != len(held) || l > ringSize*c.MaxLen {
			o.Err = fmt.Errorf("op %d: Len()=%d, model holds %d", i, l, len(held))
			return o
		}
	}
	o.NonTrivial = fulls > 0 && wraps > 0
	if fulls > 0 {
		o.Classes = append(o.Classes, "full-observed")
	}
	if wraps > 0 {
		o.Classes = append(o.Classes, "wrapped-around")
	}
	o.Sig = vh.Sig(fmt.Sprint(c))
	return o
}

func TestC17_SeqModel(t *testing.T) {
	propMain(t, propSpec[lossySeqCase]{
		Prop: "C17", Test: "SeqModel",
		Rule: "single-goroutine sequences of add bursts (unique nodes), drains and Len probes on lossy.Striped (maxLen 1/4/16/64) against a 16-slot FIFO model: Add succeeds iff fewer than 16 entries are held and reports Full otherwise, " +
			"a drain delivers exactly the recorded-and-undelivered entries in order, Len agrees after every step; non-trivial = Full observed and the ring wrapped around",
		Gen: genLossySeq, Run: runLossySeq,
	})
}

// ---- free-running recorders / one draining consumer -----------------------

type lossyConcCase struct {
	MaxLen    int `json:"max_len"`
	Recorders int `json:"recorders"`
	Per       int `json:"per_recorder"`
	DrainGap  int `json:"drain_gap"`  // consumer yields this many times between drains
	ProdYield int `json:"prod_yield"` // recorder yields every n adds (0 = never)
}

func genLossyConc(t *rapid.T) lossyConcCase {
	return lossyConcCase{
		MaxLen:    pick(t, "maxlen", 1, 1, 4, 16, 64),
		Recorders: rapid.IntRange(1, 24).Draw(t, "recorders"),
		Per:       rapid.IntRange(1, 4000).Draw(t, "per"),
		DrainGap:  pick(t, "gap", 0, 1, 5, 50),
		ProdYield: pick(t, "py", 0, 0, 1, 10),
	}
}

func runLossyConc(c lossyConcCase) outcome {
	var o outcome
	nm := node.NewManager[int, int](node.Config{WithSize: true})
	s := lossy.NewStriped(c.MaxLen, nm)
	total := c.Recorders * c.Per
	// status per add: 0 not yet decided, 1 Success, 2 refused (Full/Failed)
	status := make([]atomic.Int32, total)
	delivered := make([]int32, total) // consumer only
	var stop atomic.Bool
	var firstErr error
	var errMu sync.Mutex
	setErr := func(e error) {
		errMu.Lock()
		if firstErr == nil {
			firstErr = e
		}
		errMu.Unlock()
	}
	var fulls, fails, maxLenSeen atomic.Int64
	drain := func() {
		s.DrainTo(func(n node.Node[int, int]) {
			k := n.Key()
			if k < 0 || k >= total {
				setErr(fmt.Errorf("drain delivered a node that was never recorded (key %d)", k))
				return
			}
			delivered[k]++
			if delivered[k] > 1 {
				setErr(fmt.Errorf("drain delivered the entry %d twice", k))
			}
		})
	}
	consDone := make(chan struct{})
	go func() {
		defer close(consDone)
		for !stop.Load() {
			drain()
			if l := int64(s.Len()); l > maxLenSeen.Load() {
				maxLenSeen.Store(l)
			}
			for i := 0; i < c.DrainGap; i++ {
				runtime.Gosched()
			}
		}
	}()
	var wg sync.WaitGroup
	for r := 0; r < c.Recorders; r++ {
		wg.Add(1)
		go func(r int) {
			defer wg.Done()
			for j := 0; j < c.Per; j++ {
				id := r*c.Per + j
				n := nm.Create(id, id, 0, 0, 1)
				switch s.Add(n) {
				case lossy.Success:
					status[id].Store(1)
				case lossy.Full:
					fulls.Add(1)
					status[id].Store(2)
				default:
					fails.Add(1)
					status[id].Store(2)
				}
				if c.ProdYield > 0 && j%c.ProdYield == 0 {
					runtime.Gosched()
				}
			}
		}(r)
	}
	wg.Wait()
	stop.Store(true)
	<-consDone
	// quiescent: one final drain must deliver everything recorded and not yet delivered
	drain()
	drain()
	if firstErr == nil {
		if l := s.Len(); l != 0 {
			firstErr = fmt.Errorf("after the quiescent drain Len()=%d", l)
		}
	}
	if firstErr == nil {
		for id := 0; id < total; id++ {
			st := status[id].Load()
			if st == 1 && delivered[id] != 1 {
				firstErr = fmt.Errorf("entry %d was recorded successfully but delivered %d times", id, delivered[id])
				break
			}
			if st != 1 && delivered[id] != 0 {
				firstErr = fmt.Errorf("entry %d was refused (status %d) but delivered %d times", id, st, delivered[id])
				break
			}
		}
	}
	stripes := c.MaxLen
	if firstErr == nil && maxLenSeen.Load() > int64(ringSize*stripes) {
		firstErr = fmt.Errorf("Len() reached %d, capacity is %d x %d", maxLenSeen.Load(), ringSize, stripes)
	}
	o.Err = firstErr
	o.NonTrivial = c.Recorders >= 2 && (fulls.Load() > 0 || fails.Load() > 0)
	if fulls.Load() > 0 {
		o.Classes = append(o.Classes, "full-observed")
	}
	if fails.Load() > 0 {
		o.Classes = append(o.Classes, "cas-failure-observed")
	}
	if c.MaxLen > 1 {
		o.Classes = append(o.Classes, "striped")
	}
	o.Sig = vh.Sig(fmt.Sprint(c), fmt.Sprint(fulls.Load() > 0, fails.Load() > 0))
	return o
}

func TestC17_Concurrent(t *testing.T) {
	propMain(t, propSpec[lossyConcCase]{
		Prop: "C17", Test: "Concurrent",
		Rule: "free-running goroutines: 1-24 recorders add unique nodes to lossy.Striped (maxLen 1 => one ring; 4/16/64 => stripe creation and table expansion under contention) while one consumer drains in a loop, generated yield patterns; " +
			"oracle (every schedule): a drain never delivers a node that was not recorded, never delivers one twice, Len() never exceeds 16 x stripes, and after the recorders have finished a quiescent drain has delivered exactly the adds that reported Success (refused adds are never delivered); " +
			"non-trivial = >= 2 recorders and at least one Full or CAS-failure result",
		Assumptions: []string{"schedules are sampled by the Go runtime on up to 16 cores, not enumerated"},
		Gen:         genLossyConc, Run: runLossyConc,
	})
}

// ---- stripe churn: many short-lived buffers, so that stripe creation and table expansion (which happen only a few
// times in the life of one buffer) are exercised thousands of times per run ---------------------------------

type lossyChurnCase struct {
	MaxLen    int   `json:"max_len"`
	Instances int   `json:"instances"`
	Recorders int   `json:"recorders"`
	Per       int   `json:"per_recorder"`
	Noise     int   `json:"noise"` // 0 none, 1 yields at the verif hook points, 2 yields and short sleeps
	Seed      int64 `json:"seed"`
	Drainer   bool  `json:"concurrent_drainer"`
}

func genLossyChurn(t *rapid.T) lossyChurnCase {
	return lossyChurnCase{
		MaxLen:    pick(t, "maxlen", 4, 16, 64),
		Instances: rapid.IntRange(20, 300).Draw(t, "instances"),
		Recorders: rapid.IntRange(3, 16).Draw(t, "recorders"),
		Per:       rapid.IntRange(2, 60).Draw(t, "per"),
		Noise:     pick(t, "noise", 0, 1, 1, 2),
		Seed:      rapid.Int64().Draw(t, "seed"),
		Drainer:   rapid.Bool().Draw(t, "drainer"),
	}
}

func runLossyChurn(c lossyChurnCase) outcome {
	var o outcome
	if c.Noise > 0 {
		sl := 0
		if c.Noise == 2 {
			sl = 3
		}
		defer vh.InstallNoise(uint64(c.Seed), 300, sl)()
	}
	nm := node.NewManager[int, int](node.Config{WithSize: true})
	total := c.Recorders * c.Per
	expanded, attached := 0, 0
	for inst := 0; inst < c.Instances && o.Err == nil; inst++ {
		s := lossy.NewStriped(c.MaxLen, nm)
		status := make([]atomic.Int32, total)
		delivered := make([]int32, total)
		var errMu sync.Mutex
		var firstErr error
		setErr := func(e error) {
			errMu.Lock()
			if firstErr == nil {
				firstErr = e
			}
			errMu.Unlock()
		}
		var drainMu sync.Mutex // the buffer has a single consumer
		drain := func() {
			drainMu.Lock()
			defer drainMu.Unlock()
			s.DrainTo(func(n node.Node[int, int]) {
				k := n.Key()
				if k < 0 || k >= total {
					setErr(fmt.Errorf("drain delivered a node that was never recorded (key %d)", k))
					return
				}
				delivered[k]++
				if delivered[k] > 1 {
					setErr(fmt.Errorf("drain delivered the entry %d twice", k))
				}
			})
		}
		var stop atomic.Bool
		consDone := make(chan struct{})
		if c.Drainer {
			go func() {
				defer close(consDone)
				for !stop.Load() {
					drain()
					runtime.Gosched()
				}
			}()
		} else {
			close(consDone)
		}
		start := make(chan struct{})
		var wg sync.WaitGroup
		var fails atomic.Int64
		for r := 0; r < c.Recorders; r++ {
			wg.Add(1)
			go func(r int) {
				defer wg.Done()
				<-start
				for j := 0; j < c.Per; j++ {
					id := r*c.Per + j
					n := nm.Create(id, id, 0, 0, 1)
					if s.Add(n) == lossy.Success {
						status[id].Store(1)
					} else {
						fails.Add(1)
						status[id].Store(2)
					}
				}
			}(r)
		}
		close(start)
		wg.Wait()
		stop.Store(true)
		<-consDone
		drain()
		drain()
		if firstErr == nil {
			if l := s.Len(); l != 0 {
				firstErr = fmt.Errorf("buffer %d: after the quiescent drain Len()=%d", inst, l)
			}
		}
		if firstErr == nil {
			for id := 0; id < total; id++ {
				st := status[id].Load()
				if st == 1 && delivered[id] != 1 {
					firstErr = fmt.Errorf("buffer %d: entry %d was recorded successfully but delivered %d times (%d stripes attached)", inst, id, delivered[id], s.VerifStripes())
					break
				}
				if st != 1 && delivered[id] != 0 {
					firstErr = fmt.Errorf("buffer %d: entry %d was refused but delivered %d times", inst, id, delivered[id])
					break
				}
			}
		}
		if n := s.VerifStripes(); n > 1 {
			attached++
		}
		if s.VerifTableLen() > 1 {
			expanded++
		}
		o.Err = firstErr
	}
	o.NonTrivial = expanded > 0 && attached > 0
	if expanded > 0 {
		o.Classes = append(o.Classes, "table-expanded")
	}
	if attached > 0 {
		o.Classes = append(o.Classes, "stripe-attached-after-expansion")
	}
	if c.Drainer {
		o.Classes = append(o.Classes, "concurrent-drainer")
	}
	o.Classes = append(o.Classes, fmt.Sprintf("noise:%d", c.Noise))
	o.Sig = vh.Sig(fmt.Sprint(c), fmt.Sprint(expanded, attached))
	return o
}

func TestC17_StripeChurn(t *testing.T) {
	propMain(t, propSpec[lossyChurnCase]{
		Prop: "C17", Test: "StripeChurn",
		Rule: "20-300 fresh lossy.Striped buffers per case (maxLen 4/16/64), each hit by 3-16 recorders released together that add 2-60 unique nodes each, with or without a concurrently draining consumer, optional yields/sleeps at the verif hook points in the stripe-creation and expansion paths; " +
			"oracle per buffer (every schedule): nothing delivered that was not recorded, nothing delivered twice, and after the recorders finished a quiescent drain has delivered exactly the adds that reported Success and Len() is 0; " +
			"non-trivial = at least one buffer of the case expanded its table and attached a second stripe",
		Assumptions: []string{"schedules are sampled by the Go runtime on up to 16 cores, not enumerated"},
		Gen:         genLossyChurn, Run: runLossyChurn,
	})
}
