package props

import (
	"fmt"
	"math/rand"
	"runtime"
	"sync"
	"sync/atomic"
	"testing"

	"github.com/maypok86/otter/v2"
	"github.com/maypok86/otter/v2/verifharness/vh"
	"pgregory.net/rapid"
)

// C14, free-running. The hook-point scheduler explores the drain protocol at the granularity of the hook points; a window
// that contains none (two adjacent atomic operations of the maintenance epilogue, say) is only reachable by real
// parallelism. Here many short rounds are run on one cache with the default executor: writers are released together, every
// goroutine the cache starts is joined, and then - WITHOUT any further cache call that could run maintenance - the
// quiescent state is judged: drain status idle, write buffer empty, size bound restored, every removal notified.

type c14rCase struct {
	Max     int   `json:"max"`
	Writers int   `json:"writers"`
	Ops     int   `json:"ops_per_writer"`
	Rounds  int   `json:"rounds"`
	Keys    int   `json:"keys"`
	Procs   int   `json:"gomaxprocs"`
	Noise   int   `json:"noise"`
	Seed    int64 `json:"seed"`
	// big variant: thousands of entries, and every ShrinkEvery-th round the maximum is lowered by thousands at once
	// (restored in the next round), so that a single maintenance run has to evict thousands of entries
	ShrinkEvery int `json:"shrink_every,omitempty"`
}

func genC14R(t *rapid.T) c14rCase {
	if rapid.IntRange(0, 7).Draw(t, "big") == 0 {
		m := rapid.IntRange(1100, 4000).Draw(t, "bigmax")
		return c14rCase{
			Max:         m,
			Writers:     rapid.IntRange(2, 8).Draw(t, "writers"),
			Ops:         rapid.IntRange(200, 700).Draw(t, "bigops"),
			Rounds:      rapid.IntRange(6, 14).Draw(t, "bigrounds"),
			Keys:        2 * m,
			Procs:       pick(t, "procs", 16, 8, 4, 2),
			Seed:        rapid.Int64().Draw(t, "seed"),
			ShrinkEvery: rapid.IntRange(2, 4).Draw(t, "shrinkevery"),
		}
	}
	return c14rCase{
		Max:     rapid.IntRange(1, 8).Draw(t, "max"),
		Writers: rapid.IntRange(2, 8).Draw(t, "writers"),
		Ops:     rapid.IntRange(1, 4).Draw(t, "ops"),
		Rounds:  rapid.IntRange(200, 3000).Draw(t, "rounds"),
		Keys:    rapid.IntRange(2, 40).Draw(t, "keys"),
		Procs:   pick(t, "procs", 16, 8, 4, 2),
		Noise:   pick(t, "noise", 0, 0, 1),
		Seed:    rapid.Int64().Draw(t, "seed"),
	}
}

func runC14R(c c14rCase) (o outcome) {
	defer runtime.GOMAXPROCS(runtime.GOMAXPROCS(c.Procs))
	if c.Noise > 0 {
		defer vh.InstallNoise(uint64(c.Seed), 200, 0)()
	}
	var execWG sync.WaitGroup
	restore := otter.VerifSetDefaultExecutor(func(fn func()) {
		execWG.Add(1)
		go func() { defer execWG.Done(); fn() }()
	})
	defer restore()
	var atomicEv, asyncEv atomic.Int64
	cache := otter.Must(&otter.Options[int, int]{
		MaximumSize:      c.Max,
		OnAtomicDeletion: func(e otter.DeletionEvent[int, int]) { atomicEv.Add(1) },
		OnDeletion:       func(e otter.DeletionEvent[int, int]) { asyncEv.Add(1) },
		Logger:           &vh.RecLogger{},
	})
	defer cache.StopAllGoroutines()
	var valCtr atomic.Int64
	sawBusy, bigShrinks := 0, 0
	curMax := c.Max
	for r := 0; r < c.Rounds; r++ {
		var start, done sync.WaitGroup
		start.Add(1)
		if c.ShrinkEvery > 0 {
			// the call itself runs the maintenance that has to evict down to the new maximum
			if r%c.ShrinkEvery == c.ShrinkEvery-1 {
				if cache.EstimatedSize() > 1000+c.Max/20 {
					bigShrinks++
				}
				curMax = 1 + int(uint64(c.Seed)%97)
			} else {
				curMax = c.Max
			}
			cache.SetMaximum(uint64(curMax))
		}
		for w := 0; w < c.Writers; w++ {
			done.Add(1)
			go func(w int) {
				defer done.Done()
				rng := rand.New(rand.NewSource(c.Seed + int64(r)*1009 + int64(w)))
				start.Wait()
				for i := 0; i < c.Ops; i++ {
					k := rng.Intn(c.Keys)
					switch rng.Intn(8) {
					case 0:
						cache.Invalidate(k)
					case 1:
						cache.GetIfPresent(k)
					case 2:
						cache.SetIfAbsent(k, int(valCtr.Add(1)))
					default:
						cache.Set(k, int(valCtr.Add(1)))
					}
				}
			}(w)
		}
		start.Done()
		done.Wait()
		if cache.VerifDrainStatus() >= 2 {
			sawBusy++ // maintenance still running on a goroutine of the executor when the last call returned
		}
		execWG.Wait()
		// quiescent: every call returned, every goroutine the cache started has finished; nothing else is called before judging
		st, wb, sz := cache.VerifDrainStatus(), cache.VerifWriteBufferSize(), cache.EstimatedSize()
		a, d := atomicEv.Load(), asyncEv.Load()
		switch {
		case wb != 0:
			o.Err = fmt.Errorf("round %d: stranded maintenance: all cache calls returned and every goroutine the cache started finished, but %d write event(s) are still in the write buffer (drain status %d)", r, wb, st)
		case st != 0:
			o.Err = fmt.Errorf("round %d: stranded maintenance: at quiescence the drain status is %d (0=idle 1=required 2/3=processing) with an empty write buffer", r, st)
		case sz > curMax:
			o.Err = fmt.Errorf("round %d: at quiescence %d entries are present, maximum is %d (the size bound was not restored without a further call)", r, sz, curMax)
		case a != d:
			o.Err = fmt.Errorf("round %d: at quiescence %d removals were reported atomically but %d OnDeletion notifications were delivered", r, a, d)
		}
		if o.Err != nil {
			return o
		}
	}
	o.NonTrivial = sawBusy > 0
	if bigShrinks > 0 {
		o.Classes = append(o.Classes, "maximum-lowered-by-thousands")
	}
	if sawBusy > 0 {
		o.Classes = append(o.Classes, "calls-returned-while-maintenance-was-running")
	}
	o.Sig = vh.Sig(fmt.Sprint(c))
	return o
}

func TestC14_S4Rounds(t *testing.T) {
	propMain(t, propSpec[c14rCase]{
		Prop: "C14", Test: "S4Rounds",
		Rule: "free-running: 200-3000 short rounds on one MaximumSize 1..8 cache with Options.Executor nil (the default executor is wrapped so that its goroutines can be joined): 2-8 writers released together perform 1-4 operations each (Set, SetIfAbsent, Invalidate, GetIfPresent over 2-40 keys), GOMAXPROCS 2-16, optional yields at the hook points; an eighth of the cases use a cache of 1100-4000 entries, hundreds of operations per writer and lower the maximum by thousands every few rounds; " +
			"after every round, once every call has returned and every cache-started goroutine has finished and before any further cache call: drain status idle, write buffer empty, EstimatedSize <= maximum, #OnDeletion == #OnAtomicDeletion; non-trivial = in some round the calls returned while maintenance was still running on the executor",
		Assumptions: []string{"schedules are sampled by the Go runtime, not enumerated", "liveness is judged as 'the quiescent state has no pending work'"},
		Gen:         genC14R, Run: runC14R,
	})
}
