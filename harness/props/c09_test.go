package props

import (
	"context"
	"errors"
	"fmt"
	"sync"
	"testing"
	"testing/synctest"
	"time"

	"github.com/maypok86/otter/v2"
	"github.com/maypok86/otter/v2/internal/verifhook"
	"github.com/maypok86/otter/v2/verifharness/vh"
	"pgregory.net/rapid"
)

// C09: position every kind of write relative to a load's miss, registration,
// loader return and installation. Positions are owned through the loader gate
// and through two verif hook points used as gates (get.afterMiss: between the
// lookup miss and the registration of the in-flight call; load.beforeInstall:
// between the loader's return and the installing computation).

type c09Action struct {
	Op  string `json:"op"` // get refresh bulkget write release pass advance blockedwrite
	K   int    `json:"k,omitempty"`
	W   string `json:"w,omitempty"`   // set setifabsent computewrite computeinvalidate computecancel invalidate invalidateall
	Out string `json:"out,omitempty"` // val err notfound
	Idx int    `json:"idx,omitempty"`
}

type c09Case struct {
	Refresh     bool        `json:"refresh"`
	Expiry      bool        `json:"expiry"`
	ShortTTL    bool        `json:"short_ttl,omitempty"` // entries live 120 ns and the clock moves in steps of 150 ns: a written entry can lapse while a load is in flight
	GateMiss    bool        `json:"gate_after_miss"`
	GateInstall bool        `json:"gate_before_install"`
	Keys        int         `json:"keys"`
	Actions     []c09Action `json:"actions"`
}

type c09Load struct {
	key        int
	kind       string // load / reload
	gate       chan string
	registered bool // the loader has been reached
	released   bool
	releasedAt int64 // clock when the loader returned: the cache samples the clock for the new entry right after
	out        string
	val        int
	superseded bool
	laterWrite bool     // an explicit write call to the key began after this load had registered
	installed  bool     // installation step finished (or skipped)
	writeInCb  bool     // a write call to the key was blocked inside its own callback when this load registered
	igate      *c09Gate // the load.beforeInstall gate this load is (or was) parked at
}

type c09Gate struct {
	id   string
	key  int
	ch   chan struct{}
	open bool
}

type c09World struct {
	mu        sync.Mutex
	loads     []*c09Load
	gates     []*c09Gate
	model     map[int]int // 0 = absent
	modelExp  map[int]int64
	ttl       int64
	valCtr    int
	windows   map[string]int
	blockCh   chan struct{} // writer blocked inside its calculator callback
	blockKey  int
	blocking  bool
	known     int
	startedAt map[int]int64
	// a write landed while a Get of this key was parked between its lookup miss and its registration: the
	// statement allows the load to be installed (no write since the load started) or dropped (the key changed
	// since the miss), so both outcomes are accepted for the next load of that key
	missWindowWrite map[int]bool
	keyOfG          map[int64]int
	loadOfG         map[int64]*c09Load
}

func genC09(t *rapid.T) c09Case {
	c := c09Case{
		Refresh:     rapid.Bool().Draw(t, "refresh"),
		Expiry:      rapid.IntRange(0, 2).Draw(t, "expiry") == 0,
		GateMiss:    rapid.Bool().Draw(t, "gatemiss"),
		GateInstall: rapid.Bool().Draw(t, "gateinstall"),
		Keys:        rapid.IntRange(1, 2).Draw(t, "keys"),
	}
	c.ShortTTL = c.Expiry && rapid.Bool().Draw(t, "shortttl")
	ops := []string{"get", "get", "bulkget", "write", "write", "write", "release", "release", "pass", "pass"}
	if c.Refresh {
		ops = append(ops, "refresh", "advance")
	}
	if c.ShortTTL {
		ops = append(ops, "advance", "advance")
	}
	if c.Expiry {
		ops = append(ops, "blockedwrite")
	}
	ws := []string{"set", "set", "setifabsent", "computewrite", "computeinvalidate", "computecancel", "invalidate", "invalidateall"}
	outs := []string{"val", "val", "val", "err", "notfound"}
	c.Actions = rapid.SliceOfN(rapid.Custom(func(t *rapid.T) c09Action {
		a := c09Action{Op: ops[rapid.IntRange(0, len(ops)-1).Draw(t, "op")], K: rapid.IntRange(0, c.Keys-1).Draw(t, "k")}
		switch a.Op {
		case "write":
			a.W = ws[rapid.IntRange(0, len(ws)-1).Draw(t, "w")]
		case "release":
			a.Out = outs[rapid.IntRange(0, len(outs)-1).Draw(t, "out")]
			a.Idx = rapid.IntRange(0, 3).Draw(t, "idx")
		case "pass":
			a.Idx = rapid.IntRange(0, 3).Draw(t, "idx")
		}
		return a
	}), 1, 30).Draw(t, "actions")
	return c
}

type c09Loader struct {
	w *c09World
}

func (l c09Loader) do(kind string, k int) (int, error) {
	w := l.w
	w.mu.Lock()
	ld := &c09Load{key: k, kind: kind, gate: make(chan string), registered: true, writeInCb: w.blocking && w.blockKey == k}
	// The stalled write call overlaps this load and publishes after the load registered: by the property the write wins.
	ld.superseded = ld.writeInCb
	w.loads = append(w.loads, ld)
	w.loadOfG[vh.Goid()] = ld
	w.mu.Unlock()
	out := <-ld.gate
	w.mu.Lock()
	defer w.mu.Unlock()
	ld.out = out
	w.valCtr++
	ld.val = w.valCtr
	switch out {
	case "err":
		return ld.val, errLoader2
	case "notfound":
		return 0, otter.ErrNotFound
	}
	return ld.val, nil
}

func (l c09Loader) Load(ctx context.Context, k int) (int, error)            { return l.do("load", k) }
func (l c09Loader) Reload(ctx context.Context, k int, old int) (int, error) { return l.do("reload", k) }
func (l c09Loader) BulkLoad(ctx context.Context, keys []int) (map[int]int, error) {
	res := map[int]int{}
	for _, k := range keys {
		v, err := l.do("load", k)
		if err != nil && !errors.Is(err, otter.ErrNotFound) {
			return nil, err
		}
		if err == nil {
			res[k] = v
		}
	}
	return res, nil
}
func (l c09Loader) BulkReload(ctx context.Context, keys []int, olds []int) (map[int]int, error) {
	return l.BulkLoad(ctx, keys)
}

type c09Expiry struct{ w *c09World }

func (e c09Expiry) block(k int) {
	w := e.w
	w.mu.Lock()
	if w.blockCh != nil && w.blockKey == k && !w.blocking {
		ch := w.blockCh
		w.blocking = true
		w.mu.Unlock()
		<-ch // the writer is inside its table computation (bucket lock held) after dropping in-flight calls
		w.mu.Lock()
		w.blocking = false
		w.blockCh = nil
	}
	w.mu.Unlock()
}
func (e c09Expiry) ExpireAfterCreate(en otter.Entry[int, int]) time.Duration {
	e.block(en.Key)
	return time.Duration(e.w.ttl)
}
func (e c09Expiry) ExpireAfterUpdate(en otter.Entry[int, int], old int) time.Duration {
	e.block(en.Key)
	return time.Duration(e.w.ttl)
}
func (e c09Expiry) ExpireAfterRead(en otter.Entry[int, int]) time.Duration { return en.ExpiresAfter() }

func runC09(c c09Case) outcome {
	var o outcome
	w := &c09World{model: map[int]int{}, modelExp: map[int]int64{}, ttl: int64(time.Hour), windows: map[string]int{}, missWindowWrite: map[int]bool{}, keyOfG: map[int64]int{}, loadOfG: map[int64]*c09Load{}}
	if c.ShortTTL {
		w.ttl = 120
	}
	var verr error
	fail := func(f string, a ...any) {
		if verr == nil {
			verr = fmt.Errorf(f, a...)
		}
	}
	func() {
		defer func() {
			if r := recover(); r != nil {
				verr = fmt.Errorf("bubble did not terminate cleanly: %v", r)
			}
		}()
		synctest.Test(s2T, func(t *testing.T) {
			clock := &vh.ManualClock{}
			clock.Set(1_000_000)
			opts := &otter.Options[int, int]{Clock: clock, Logger: &vh.RecLogger{}}
			if c.Refresh {
				opts.RefreshCalculator = otter.RefreshWriting[int, int](100 * time.Nanosecond)
			}
			if c.Expiry {
				opts.ExpiryCalculator = c09Expiry{w}
			}
			cache := otter.Must(opts)
			defer cache.StopAllGoroutines()
			ld := c09Loader{w}
			verifhook.Set(func(id string) {
				if (id == "get.afterMiss" && c.GateMiss) || (id == "load.beforeInstall" && c.GateInstall) {
					g := &c09Gate{id: id, ch: make(chan struct{}), key: -1}
					w.mu.Lock()
					if k, ok := w.keyOfG[vh.Goid()]; ok {
						g.key = k
					}
					if id == "load.beforeInstall" {
						if l := w.loadOfG[vh.Goid()]; l != nil {
							l.igate = g
							g.key = l.key
						}
					}
					w.gates = append(w.gates, g)
					w.mu.Unlock()
					<-g.ch
				}
			})
			defer verifhook.Set(nil)
			var wg sync.WaitGroup
			spawn := func(f func()) {
				wg.Add(1)
				go func() { defer wg.Done(); defer func() { _ = recover() }(); f() }()
			}
			pendingLoads := func() []*c09Load {
				var p []*c09Load
				for _, l := range w.loads {
					if !l.released {
						p = append(p, l)
					}
				}
				return p
			}
			pendingGates := func() []*c09Gate {
				var p []*c09Gate
				for _, g := range w.gates {
					if !g.open {
						p = append(p, g)
					}
				}
				return p
			}
			// explicit write: applied to the model, supersedes registered loads of the key that are not installed yet
			explicit := func(k int, present bool, v int, isWrite bool) {
				if !isWrite {
					return
				}
				if present {
					w.model[k] = v
					w.modelExp[k] = clock.Now() + w.ttl
				} else {
					delete(w.model, k)
				}
				for _, l := range w.loads {
					if l.key == k && l.registered && !l.installed {
						if !l.released {
							w.windows["write-while-loader-runs"]++
						} else {
							w.windows["write-after-loader-returned-before-install"]++
						}
						l.superseded = true
						l.laterWrite = true
					}
				}
				for _, g := range pendingGates() {
					if g.id == "get.afterMiss" && (g.key == k || g.key < 0) {
						w.windows["write-between-miss-and-registration"]++
						w.missWindowWrite[k] = true
					}
				}
			}
			settle := func() {
				// loads whose installation step has certainly run: released and not parked at the install gate
				w.mu.Lock()
				for _, l := range w.loads {
					if l.released && !l.installed && (!c.GateInstall || (l.igate != nil && l.igate.open)) {
						l.installed = true
						if !l.superseded {
							for _, g := range w.gates {
								if !g.open && g.id == "get.afterMiss" && (g.key == l.key || g.key < 0) {
									w.missWindowWrite[l.key] = true // the key changes while that Get sits between miss and registration
								}
							}
							switch l.out {
							case "val":
								w.model[l.key] = l.val
								w.modelExp[l.key] = l.releasedAt + w.ttl
							case "notfound":
								delete(w.model, l.key)
							}
						} else if l.writeInCb && !l.laterWrite && c.Expiry && w.modelExp[l.key] <= l.releasedAt {
							// The only write that overlaps this load is the stalled one: its call began (and sampled the clock) before
							// the load registered, and what it published has already lapsed when the load result arrives. The loaded
							// value is not older than that write, and "the write, then - after its lifetime - the load" explains the
							// history sequentially, so installing the load is accepted as well as dropping it.
							w.missWindowWrite[l.key] = true
						}
					}
				}
				w.mu.Unlock()
			}
			compare := func(where string) {
				w.mu.Lock()
				defer w.mu.Unlock()
				// only judge keys without an unfinished load or parked gate
				busy := map[int]bool{}
				for _, l := range w.loads {
					if !l.installed {
						busy[l.key] = true
					}
				}
				if len(pendingGates()) > 0 || w.blocking {
					return
				}
				for k := 0; k < c.Keys; k++ {
					if busy[k] {
						continue
					}
					g, ok := cache.GetEntryQuietly(k)
					want, has := w.model[k]
					if has && c.Expiry && w.modelExp[k] <= clock.Now() {
						has = false // lapsed: not visible, whether or not it has been swept
						if ok && g.Value == want {
							fail("%s: key %d is visible with value %d although its lifetime (120 ns) has passed", where, k, g.Value)
						}
					}
					if (ok != has || (ok && g.Value != want)) && w.missWindowWrite[k] {
						// either the load or the write may have won (see missWindowWrite): resync
						if ok {
							w.model[k] = g.Value
							w.modelExp[k] = g.ExpiresAtNano
						} else {
							delete(w.model, k)
						}
						delete(w.missWindowWrite, k)
						continue
					}
					if ok != has || (ok && g.Value != want) {
						// known finding: the load registered while a write call to the key was blocked inside its own callback
						for _, l := range w.loads {
							applied := (l.out == "val" && ok && g.Value == l.val) || (l.out == "notfound" && !ok)
							if l.key == k && l.writeInCb && applied && knownFor("C09")["KF-C09-write-window"] {
								w.known++
								if ok {
									w.model[k] = g.Value
								} else {
									delete(w.model, k)
								}
								return
							}
						}
						got := "absent"
						if ok {
							got = fmt.Sprint(g.Value)
						}
						exp := "absent"
						if has {
							exp = fmt.Sprint(want)
						}
						fail("%s: key %d holds %s, expected %s (the last explicit write or invalidation must win over a load it superseded; an unsuperseded load must be installed)", where, k, got, exp)
					}
				}
			}
			for i := range c.Actions {
				a := &c.Actions[i]
				if verr != nil {
					break
				}
				switch a.Op {
				case "get":
					spawn(func() {
						w.mu.Lock()
						w.keyOfG[vh.Goid()] = a.K
						w.mu.Unlock()
						_, _ = cache.Get(context.Background(), a.K, ld)
					})
				case "bulkget":
					spawn(func() {
						w.mu.Lock()
						w.keyOfG[vh.Goid()] = a.K
						w.mu.Unlock()
						_, _ = cache.BulkGet(context.Background(), []int{a.K}, ld)
					})
				case "refresh":
					spawn(func() {
						if ch := cache.Refresh(context.Background(), a.K, ld); ch != nil {
							<-ch
						}
					})
				case "advance":
					clock.Advance(150)
				case "release":
					w.mu.Lock()
					p := pendingLoads()
					w.mu.Unlock()
					if len(p) > 0 {
						l := p[a.Idx%len(p)]
						l.released = true
						l.releasedAt = clock.Now()
						l.gate <- a.Out
					}
				case "pass":
					w.mu.Lock()
					p := pendingGates()
					w.mu.Unlock()
					if len(p) > 0 {
						g := p[a.Idx%len(p)]
						g.open = true
						close(g.ch)
					}
				case "blockedwrite":
					// a Set whose table computation is stalled inside the expiry calculator
					w.mu.Lock()
					if w.blockCh != nil || !c.Expiry {
						w.mu.Unlock()
						break
					}
					w.blockCh = make(chan struct{})
					w.blockKey = a.K
					w.valCtr++
					v := w.valCtr
					w.mu.Unlock()
					k := a.K
					spawn(func() { cache.Set(k, v) })
					synctest.Wait()
					w.mu.Lock()
					explicit(k, true, v, true)
					// loads that register from now on, while the writer is stalled, are the known-finding window
					w.mu.Unlock()
				case "unblock":
				case "write":
					w.mu.Lock()
					blocked := w.blocking
					w.mu.Unlock()
					if blocked {
						break // could wait for the stalled writer's bucket lock (a mutex, not a durable block)
					}
					w.mu.Lock()
					w.valCtr++
					v := w.valCtr
					w.mu.Unlock()
					k := a.K
					switch a.W {
					case "set":
						cache.Set(k, v)
						w.mu.Lock()
						explicit(k, true, v, true)
						w.mu.Unlock()
					case "setifabsent":
						_, ok := cache.SetIfAbsent(k, v)
						w.mu.Lock()
						explicit(k, true, v, ok)
						w.mu.Unlock()
					case "computewrite":
						cache.Compute(k, func(int, bool) (int, otter.ComputeOp) { return v, otter.WriteOp })
						w.mu.Lock()
						explicit(k, true, v, true)
						w.mu.Unlock()
					case "computeinvalidate":
						cache.Compute(k, func(int, bool) (int, otter.ComputeOp) { return 0, otter.InvalidateOp })
						w.mu.Lock()
						explicit(k, false, 0, true)
						w.mu.Unlock()
					case "computecancel":
						cache.Compute(k, func(int, bool) (int, otter.ComputeOp) { return 0, otter.CancelOp })
						// A cancelled computation that finds a lapsed entry clears it away, and with it the in-flight record
						// of the key: a load in flight may then be dropped although nothing was written. The statement only
						// forbids installing after a write, so both outcomes are accepted for this key.
						w.mu.Lock()
						if _, has := w.model[k]; has && c.Expiry && w.modelExp[k] <= clock.Now() {
							for _, l := range w.loads {
								if l.key == k && !l.installed {
									w.missWindowWrite[k] = true
								}
							}
						}
						w.mu.Unlock()
					case "invalidate":
						cache.Invalidate(k)
						w.mu.Lock()
						explicit(k, false, 0, true)
						w.mu.Unlock()
					case "invalidateall":
						// only keys that are present count (the effect on loads of absent keys is documented as undefined)
						w.mu.Lock()
						absentLoad := false
						for _, l := range w.loads {
							if !l.installed {
								if _, has := w.model[l.key]; !has || (c.Expiry && w.modelExp[l.key] <= clock.Now()) {
									absentLoad = true
								}
							}
						}
						w.mu.Unlock()
						if absentLoad {
							w.windows["excluded-invalidateall-with-load-of-absent-key"]++
							break
						}
						cache.InvalidateAll()
						w.mu.Lock()
						for kk := 0; kk < c.Keys; kk++ {
							explicit(kk, false, 0, true)
						}
						w.mu.Unlock()
					}
				}
				// if a loader was just released while the writer is stalled, the install waits for the writer's lock
				// (a mutex: not a durable block), so let the writer go before waiting for the bubble to settle
				w.mu.Lock()
				stalled := w.blocking
				var anyReleasedNotInstalled bool
				for _, l := range w.loads {
					if l.released && !l.installed {
						anyReleasedNotInstalled = true
					}
				}
				ch := w.blockCh
				w.mu.Unlock()
				if stalled && anyReleasedNotInstalled && ch != nil {
					// the stalled write publishes now: Gets parked after their miss see the key change before they register
					w.mu.Lock()
					for _, g := range w.gates {
						if !g.open && g.id == "get.afterMiss" && (g.key == w.blockKey || g.key < 0) {
							w.missWindowWrite[w.blockKey] = true
						}
					}
					w.mu.Unlock()
					close(ch)
				}
				synctest.Wait()
				settle()
				compare(fmt.Sprintf("after action %d (%s %s)", i, a.Op, a.W))
			}
			// drain: open every gate, release every loader, unblock the writer
			for round := 0; round < 100; round++ {
				w.mu.Lock()
				pl, pg := pendingLoads(), pendingGates()
				ch := w.blockCh
				blocking := w.blocking
				w.mu.Unlock()
				if len(pl) == 0 && len(pg) == 0 && !blocking {
					break
				}
				for _, g := range pg {
					if g.id == "get.afterMiss" {
						// during the drain a Get parked after its miss resumes while other loads are being installed
						for k := 0; k < c.Keys; k++ {
							if g.key == k || g.key < 0 {
								w.missWindowWrite[k] = true
							}
						}
					}
				}
				for _, l := range pl {
					l.released = true
					l.releasedAt = clock.Now()
					l.gate <- "val"
				}
				for _, g := range pg {
					g.open = true
					close(g.ch)
				}
				if blocking && ch != nil {
					w.mu.Lock()
					w.missWindowWrite[w.blockKey] = true
					w.mu.Unlock()
					close(ch)
					w.mu.Lock()
					w.blockCh = nil
					w.mu.Unlock()
				}
				synctest.Wait()
				settle()
			}
			wg.Wait()
			synctest.Wait()
			settle()
			compare("at quiescence")
		})
	}()
	o.Err = verr
	inWindow := 0
	for k, n := range w.windows {
		o.Classes = append(o.Classes, "window:"+k)
		if n > 0 && k != "excluded-invalidateall-with-load-of-absent-key" {
			inWindow++
		}
	}
	for i := 0; i < w.known; i++ {
		o.Known = append(o.Known, "KF-C09-write-window")
	}
	o.NonTrivial = inWindow > 0
	o.Sig = vh.Sig(fmt.Sprint(c))
	return o
}

func TestC09_WritePlacement(t *testing.T) {
	s2T = t
	propMain(t, propSpec[c09Case]{
		Prop: "C09", Test: "WritePlacement",
		Rule: "scripts of 1-30 actions in a testing/synctest bubble over 1-2 keys: start Get/BulkGet/Refresh (each in its own goroutine), explicit writes (Set, inserting/no-op SetIfAbsent, Compute write/invalidate/cancel, Invalidate, InvalidateAll only when no load of an absent key is in flight), " +
			"release a blocked loader with value/error/not-found, advance past the refresh time; two verif hook points are optional gates (get.afterMiss between lookup miss and registration, load.beforeInstall between loader return and the installing computation), so a write can be placed in each of the four windows; " +
			"a 'blockedwrite' stalls a Set inside its own expiry-calculator callback (bucket lock held) while a load registers; oracle after every settled step and at quiescence: the cache holds the last explicit write (or nothing after an invalidation) if it superseded the load, otherwise the loaded value; " +
			"non-trivial = a write landed inside a load's [miss, install] window; the windows are histogrammed",
		Assumptions: []string{"determinism at blocking-point granularity (synctest); preemption inside non-blocking code is sampled by C02 instead"},
		Gen:         genC09, Run: runC09,
	})
}
