package props

import (
	"bytes"
	"context"
	"errors"
	"fmt"
	"math"
	"sort"
	"strconv"
	"strings"
	"testing"
	"time"

	"github.com/maypok86/otter/v2"
	"github.com/maypok86/otter/v2/verifharness/vh"
	"pgregory.net/rapid"
)

// C01 over key (and value) types. The statement quantifies over "any key/value choices"; the main S1 interpreter
// is written for Cache[int,int]. This is a small second interpreter, generic in the key type, whose model is keyed
// by an integer id; the cache key for an id is built afresh for every single call (strings are concatenated at run
// time, so equal keys never share their backing storage), which is what a real caller does and what a hash of the
// key's bytes instead of its value would get wrong. Key types: strings (incl. the empty string), structs with
// strings / padding / interfaces / floats inside, arrays, floats where +0 and -0 are the same key, interface keys
// holding several dynamic types, pointers. Values are strings (a non-word-sized value type).

type ktAction struct {
	Op  string `json:"op"`
	ID  int    `json:"id"`
	IDs []int  `json:"ids,omitempty"`
	Cop string `json:"cop,omitempty"`
	Out string `json:"out,omitempty"`
	Dur int64  `json:"dur,omitempty"`
}

type ktCase struct {
	KeyType string     `json:"key_type"`
	IDs     int        `json:"ids"`
	Max     int        `json:"max,omitempty"` // 0: unbounded
	TTL     int64      `json:"ttl,omitempty"` // 0: no expiration; else ExpiryWriting(TTL)
	InitCap int        `json:"init_cap,omitempty"`
	Actions []ktAction `json:"actions"`
	// SaveLoad: the script may contain 'saveload' actions (SaveCacheTo + LoadCacheFrom into a fresh cache of the same
	// configuration, compared with the model); only for key types gob can encode without registration.
	SaveLoad bool `json:"save_load,omitempty"`
}

var ktTypes = []string{"string", "struct-string-int", "struct-padded", "array-of-strings", "float64", "any", "struct-any", "pointer", "struct-float", "nested"}

var ktGobTypes = []string{"string", "struct-string-int", "struct-padded", "array-of-strings", "float64", "struct-float", "nested"}

func genKTSaveLoad(t *rapid.T) ktCase {
	c := genKTOf(t, ktGobTypes)
	c.SaveLoad = true
	return c
}

func genKT(t *rapid.T) ktCase { return genKTOf(t, ktTypes) }

func genKTOf(t *rapid.T, types []string) ktCase {
	c := ktCase{
		KeyType: pick(t, "keytype", types...),
		IDs:     pick(t, "ids", 3, 8, 40, 300),
		InitCap: pick(t, "initcap", 0, 0, 1, 64),
	}
	if rapid.IntRange(0, 2).Draw(t, "bounded") == 0 {
		c.Max = pick(t, "max", 1, 3, 10, 64)
	}
	if rapid.IntRange(0, 2).Draw(t, "expiring") == 0 {
		c.TTL = int64(rapid.IntRange(1, 2000).Draw(t, "ttl"))
	}
	ops := []string{"set", "set", "set", "setifabsent", "getifpresent", "getifpresent", "getentry", "compute", "computeifabsent", "computeifpresent",
		"invalidate", "get", "get", "bulkget", "iter", "invalidateall", "setexpiresafter"}
	if c.TTL > 0 {
		ops = append(ops, "advance", "advance", "cleanup")
	}
	gobOK := false
	for _, g := range ktGobTypes {
		gobOK = gobOK || g == c.KeyType
	}
	if gobOK {
		ops = append(ops, "saveload", "saveload")
	}
	lo := pick(t, "lenclass", 1, 10, 60)
	c.Actions = rapid.SliceOfN(rapid.Custom(func(t *rapid.T) ktAction {
		a := ktAction{Op: ops[rapid.IntRange(0, len(ops)-1).Draw(t, "op")], ID: rapid.IntRange(0, c.IDs-1).Draw(t, "id")}
		switch a.Op {
		case "compute", "computeifpresent", "computeifabsent":
			a.Cop = pick(t, "cop", "write", "write", "cancel", "invalidate")
		case "get":
			a.Out = pick(t, "out", "val", "val", "err", "notfound")
		case "bulkget":
			a.Out = pick(t, "bout", "full", "partial", "err")
			n := rapid.IntRange(0, 6).Draw(t, "n")
			for i := 0; i < n; i++ {
				a.IDs = append(a.IDs, rapid.IntRange(0, c.IDs-1).Draw(t, "bid"))
			}
		case "advance":
			a.Dur = int64(rapid.IntRange(1, 3000).Draw(t, "adv"))
		case "setexpiresafter":
			a.Dur = int64(rapid.IntRange(1, 3000).Draw(t, "dur"))
		}
		return a
	}), lo, 250).Draw(t, "actions")
	return c
}

// ---- key constructors: a fresh, never shared, representation of key #id on every call ------------------------

func freshString(id int) string {
	if id == 0 {
		return "" // the empty string is a key like any other
	}
	var b strings.Builder
	b.WriteString("key-")
	b.WriteString(strconv.Itoa(id))
	if id%7 == 3 {
		b.WriteString(strings.Repeat("x", 40+id%50)) // longer than any small-string fast path
	}
	return b.String()
}

type ktStructSI struct {
	Tenant string
	ID     int
}
type ktPadded struct {
	A int8 // followed by padding bytes
	B int64
	C bool // followed by padding bytes
	D int32
}
type ktStructAny struct {
	Name any
	N    int16
}
type ktStructFloat struct {
	F float64
	S string
}
type ktNested struct {
	In  ktStructSI
	Arr [2]string
	P   ktPadded
}

var ktPtrTable = func() []*int {
	out := make([]*int, 400)
	for i := range out {
		out[i] = new(int)
	}
	return out
}()

//go:noinline
func dirtyStack() int {
	// leaves non-zero garbage on the stack so that the padding of the next by-value struct is not accidentally zero
	var buf [512]byte
	for i := range buf {
		buf[i] = byte(i*31 + 7)
	}
	s := 0
	for _, b := range buf {
		s += int(b)
	}
	return s
}

var ktSink int

func mkPadded(id int) ktPadded {
	ktSink += dirtyStack()
	var p ktPadded
	p.A, p.B, p.C, p.D = int8(id%100), int64(id)*1_000_003, id%2 == 0, int32(id)
	return p
}

func mkFloat(id, call int) float64 {
	if id == 0 {
		if call%2 == 0 {
			return 0.0
		}
		return math.Copysign(0, -1) // -0 == +0: the same key
	}
	return float64(id) + 0.25
}

func mkAny(id int) any {
	switch id % 4 {
	case 0:
		return id
	case 1:
		return freshString(id)
	case 2:
		return ktStructSI{freshString(id), id}
	default:
		return float64(id) / 2
	}
}

// ---- the generic run ----------------------------------------------------------------------------------------------

type ktEntry struct {
	val string
	exp int64 // MaxInt64 without expiration
}

type ktErr struct{ msg string }

func (e ktErr) Error() string { return e.msg }

var errKTLoad = errors.New("verif: load failed")

func runKTGeneric[K comparable](c ktCase, mk func(id, call int) K, idOf func(K) int) (err error, classes []string, nontrivial bool) {
	clock := &vh.ManualClock{}
	clock.Set(1_000_000)
	type ev struct {
		id    int
		val   string
		cause otter.DeletionCause
	}
	var events []ev
	opts := &otter.Options[K, string]{
		InitialCapacity: c.InitCap, Clock: clock, Logger: &vh.RecLogger{},
		Executor:         func(fn func()) { fn() },
		OnAtomicDeletion: func(e otter.DeletionEvent[K, string]) { events = append(events, ev{idOf(e.Key), e.Value, e.Cause}) },
	}
	if c.Max > 0 {
		opts.MaximumSize = c.Max
	}
	if c.TTL > 0 {
		opts.ExpiryCalculator = otter.ExpiryWriting[K, string](time.Duration(c.TTL))
	}
	cache := otter.Must(opts)
	defer cache.StopAllGoroutines()
	mkTarget := func() *otter.Cache[K, string] {
		o2 := *opts
		o2.OnAtomicDeletion = nil
		return otter.Must(&o2)
	}
	saveLoads := 0
	model := map[int]*ktEntry{}
	calls := 0
	key := func(id int) K { calls++; return mk(id, calls) }
	seq := 0
	newVal := func(id int) string { seq++; return "v" + strconv.Itoa(seq) + "/" + strconv.Itoa(id) }
	now := func() int64 { return clock.Now() }
	live := func(id int) (*ktEntry, bool) {
		e := model[id]
		return e, e != nil && now() < e.exp
	}
	write := func(id int, v string) {
		exp := int64(math.MaxInt64)
		if c.TTL > 0 {
			exp = now() + c.TTL
		}
		model[id] = &ktEntry{v, exp}
	}
	evictions, onExpired := 0, 0
	reconcile := func() error {
		for _, e := range events {
			if e.cause != otter.CauseOverflow && e.cause != otter.CauseExpiration {
				continue
			}
			m := model[e.id]
			if m == nil || m.val != e.val {
				continue // a value that had been replaced or removed before (reported with the cause of its expiry)
			}
			if e.cause == otter.CauseOverflow && c.Max == 0 {
				return ktErr{fmt.Sprintf("Overflow reported for id %d in an unbounded cache", e.id)}
			}
			if e.cause == otter.CauseExpiration && now() < m.exp {
				return ktErr{fmt.Sprintf("Expiration reported for id %d at %d, deadline %d", e.id, now(), m.exp)}
			}
			evictions++
			delete(model, e.id)
		}
		events = events[:0]
		return nil
	}
	fail := func(i int, format string, args ...any) error {
		return ktErr{fmt.Sprintf("key type %s, step %d (%s): ", c.KeyType, i, c.Actions[i].Op) + fmt.Sprintf(format, args...)}
	}
	for i := range c.Actions {
		a := &c.Actions[i]
		id := a.ID
		me, isLive := live(id)
		if me != nil && !isLive {
			onExpired++
		}
		switch a.Op {
		case "set":
			v := newVal(id)
			got, ok := cache.Set(key(id), v)
			write(id, v)
			if isLive {
				if ok || got != me.val {
					return fail(i, "Set(#%d,%q) over a present key = (%q,%v), want the previous value (%q,false)", id, v, got, ok, me.val), classes, false
				}
			} else if !ok || got != v {
				return fail(i, "Set(#%d,%q) on an absent key = (%q,%v), want (%q,true)", id, v, got, ok, v), classes, false
			}
		case "setifabsent":
			v := newVal(id)
			got, ok := cache.SetIfAbsent(key(id), v)
			if isLive {
				if ok || got != me.val {
					return fail(i, "SetIfAbsent(#%d) on a present key = (%q,%v), want (%q,false)", id, got, ok, me.val), classes, false
				}
			} else {
				write(id, v)
				if !ok || got != v {
					return fail(i, "SetIfAbsent(#%d) on an absent key = (%q,%v), want (%q,true)", id, got, ok, v), classes, false
				}
			}
		case "getifpresent", "getentry":
			var got string
			var ok bool
			if a.Op == "getifpresent" {
				got, ok = cache.GetIfPresent(key(id))
			} else {
				var e otter.Entry[K, string]
				e, ok = cache.GetEntry(key(id))
				got = e.Value
				if ok && idOf(e.Key) != id {
					return fail(i, "GetEntry(#%d) returned an entry for key #%d", id, idOf(e.Key)), classes, false
				}
			}
			if ok != isLive || (ok && got != me.val) {
				return fail(i, "%s(#%d) = (%q,%v), model holds %v", a.Op, id, got, ok, descKT(me, isLive)), classes, false
			}
		case "compute", "computeifabsent", "computeifpresent":
			v := newVal(id)
			ran := 0
			var sawOld string
			var sawFound bool
			op := map[string]otter.ComputeOp{"write": otter.WriteOp, "cancel": otter.CancelOp, "invalidate": otter.InvalidateOp}[a.Cop]
			var got string
			var ok bool
			switch a.Op {
			case "compute":
				got, ok = cache.Compute(key(id), func(old string, found bool) (string, otter.ComputeOp) {
					ran++
					sawOld, sawFound = old, found
					return v, op
				})
			case "computeifabsent":
				got, ok = cache.ComputeIfAbsent(key(id), func() (string, bool) { ran++; return v, a.Cop != "write" })
			case "computeifpresent":
				got, ok = cache.ComputeIfPresent(key(id), func(old string) (string, otter.ComputeOp) {
					ran++
					sawOld, sawFound = old, true
					return v, op
				})
			}
			wantRan := 1
			if (a.Op == "computeifabsent" && isLive) || (a.Op == "computeifpresent" && !isLive) {
				wantRan = 0
			}
			if ran != wantRan {
				return fail(i, "%s(#%d): the function ran %d times, want %d (model: %v)", a.Op, id, ran, wantRan, descKT(me, isLive)), classes, false
			}
			if ran == 1 && a.Op != "computeifabsent" && (sawFound != isLive || (isLive && sawOld != me.val)) {
				return fail(i, "%s(#%d): the function saw (%q,%v), model holds %v", a.Op, id, sawOld, sawFound, descKT(me, isLive)), classes, false
			}
			// the effect
			switch {
			case ran == 0:
			case a.Op == "computeifabsent":
				if a.Cop == "write" {
					write(id, v)
				}
			case a.Cop == "write":
				write(id, v)
			case a.Cop == "invalidate":
				if isLive {
					delete(model, id)
				}
			}
			// (an expired entry that is still in the table stays in the model until the cache reports its removal)
			ne, nl := live(id)
			if ok != nl || (ok && got != ne.val) {
				return fail(i, "%s(#%d, %s) returned (%q,%v), a lookup after it gives %v", a.Op, id, a.Cop, got, ok, descKT(ne, nl)), classes, false
			}
		case "invalidate":
			got, ok := cache.Invalidate(key(id))
			if ok != isLive || (ok && got != me.val) {
				return fail(i, "Invalidate(#%d) = (%q,%v), model holds %v", id, got, ok, descKT(me, isLive)), classes, false
			}
			if isLive {
				delete(model, id)
			}
		case "invalidateall":
			cache.InvalidateAll()
			for k := range model {
				delete(model, k)
			}
		case "setexpiresafter":
			cache.SetExpiresAfter(key(id), time.Duration(a.Dur))
			if isLive && c.TTL > 0 {
				me.exp = now() + a.Dur
			}
		case "get":
			v := newVal(id)
			loads := 0
			got, gerr := cache.Get(context.Background(), key(id), otter.LoaderFunc[K, string](func(ctx context.Context, k K) (string, error) {
				loads++
				if idOf(k) != id {
					return "", fmt.Errorf("loader asked for key #%d instead of #%d", idOf(k), id)
				}
				switch a.Out {
				case "err":
					return "", errKTLoad
				case "notfound":
					return "", otter.ErrNotFound
				}
				return v, nil
			}))
			if isLive {
				if loads != 0 || gerr != nil || got != me.val {
					return fail(i, "Get(#%d) on a present key: loads=%d result (%q,%v), model holds %q", id, loads, got, gerr, me.val), classes, false
				}
				break
			}
			if loads != 1 {
				return fail(i, "Get(#%d) on an absent key invoked the loader %d times", id, loads), classes, false
			}
			switch a.Out {
			case "val":
				write(id, v)
				if gerr != nil || got != v {
					return fail(i, "Get(#%d) = (%q,%v), loader returned %q", id, got, gerr, v), classes, false
				}
			case "err":
				if !errors.Is(gerr, errKTLoad) {
					return fail(i, "Get(#%d): error %v, loader failed with %v", id, gerr, errKTLoad), classes, false
				}
			case "notfound":
				if !errors.Is(gerr, otter.ErrNotFound) {
					return fail(i, "Get(#%d): error %v, want ErrNotFound", id, gerr), classes, false
				}
			}
		case "bulkget":
			if c.Max > 0 {
				break // installation order vs. evictions inside one bulk call is judged by the main interpreter
			}
			var keys []K
			want := map[int]string{}
			var missing []int
			seen := map[int]bool{}
			for _, bid := range a.IDs {
				keys = append(keys, key(bid))
				if seen[bid] {
					continue
				}
				seen[bid] = true
				if e, l := live(bid); l {
					want[bid] = e.val
				} else {
					missing = append(missing, bid)
				}
			}
			supplied := map[int]string{}
			loads := 0
			var asked []int
			res, berr := cache.BulkGet(context.Background(), keys, otter.BulkLoaderFunc[K, string](func(ctx context.Context, ks []K) (map[K]string, error) {
				loads++
				out := map[K]string{}
				for j, k := range ks {
					asked = append(asked, idOf(k))
					if a.Out == "partial" && j%2 == 1 {
						continue
					}
					v := newVal(idOf(k))
					supplied[idOf(k)] = v
					out[mk(idOf(k), j)] = v // answer with yet another fresh representation of the key
				}
				if a.Out == "err" {
					return nil, errKTLoad
				}
				return out, nil
			}))
			sort.Ints(asked)
			sort.Ints(missing)
			if len(missing) == 0 && loads != 0 || len(missing) > 0 && (loads != 1 || fmt.Sprint(asked) != fmt.Sprint(missing)) {
				return fail(i, "BulkGet(%v): bulk loader invoked %d times with ids %v, the absent ids are %v", a.IDs, loads, asked, missing), classes, false
			}
			if a.Out == "err" && len(missing) > 0 {
				if !errors.Is(berr, errKTLoad) {
					return fail(i, "BulkGet(%v): error %v, the loader failed", a.IDs, berr), classes, false
				}
				break
			}
			if berr != nil {
				return fail(i, "BulkGet(%v): unexpected error %v", a.IDs, berr), classes, false
			}
			for bid, v := range supplied {
				want[bid] = v
				write(bid, v)
			}
			gotm := map[int]string{}
			for k, v := range res {
				if _, dup := gotm[idOf(k)]; dup {
					return fail(i, "BulkGet(%v): the result holds key #%d twice", a.IDs, idOf(k)), classes, false
				}
				gotm[idOf(k)] = v
			}
			if fmt.Sprint(gotm) != fmt.Sprint(want) {
				return fail(i, "BulkGet(%v) = %v, want %v", a.IDs, gotm, want), classes, false
			}
			// the result must be usable with a fresh key
			for bid, v := range want {
				if g, ok := res[key(bid)]; !ok || g != v {
					return fail(i, "BulkGet(%v): result[#%d] looked up with an equal key = (%q,%v), want %q", a.IDs, bid, g, ok, v), classes, false
				}
			}
		case "iter":
			seenIDs := map[int]string{}
			for k, v := range cache.All() {
				if _, dup := seenIDs[idOf(k)]; dup {
					return fail(i, "All() yields key #%d twice", idOf(k)), classes, false
				}
				seenIDs[idOf(k)] = v
			}
			if err := reconcile(); err != nil {
				return err, classes, false
			}
			wantIDs := map[int]string{}
			for mid := range model {
				if e, l := live(mid); l {
					wantIDs[mid] = e.val
				}
			}
			if fmt.Sprint(seenIDs) != fmt.Sprint(wantIDs) {
				return fail(i, "All() yields %v, model holds %v", seenIDs, wantIDs), classes, false
			}
		case "saveload":
			var buf bytes.Buffer
			if err := otter.SaveCacheTo(cache, &buf); err != nil {
				return fail(i, "SaveCacheTo: %v", err), classes, false
			}
			if err := reconcile(); err != nil { // saving runs the pending maintenance first
				return err, classes, false
			}
			dst := mkTarget()
			lerr := otter.LoadCacheFrom(dst, &buf)
			var derr error
			if lerr != nil {
				derr = fail(i, "LoadCacheFrom: %v", lerr)
			}
			n := 0
			for mid := 0; mid < c.IDs && derr == nil; mid++ {
				e, l := live(mid)
				g, ok := dst.GetEntryQuietly(key(mid))
				if l {
					n++
				}
				switch {
				case ok != l:
					derr = fail(i, "save/load: key #%d is %v in the source (%v) but present=%v in the reloaded cache", mid, map[bool]string{true: "live", false: "absent or expired"}[l], descKT(e, l), ok)
				case ok && (g.Value != e.val || idOf(g.Key) != mid):
					derr = fail(i, "save/load: key #%d reloaded as (#%d,%q), the source holds %q", mid, idOf(g.Key), g.Value, e.val)
				case ok && c.TTL > 0 && g.ExpiresAtNano != e.exp:
					derr = fail(i, "save/load: key #%d reloaded with ExpiresAtNano %d, the source has %d", mid, g.ExpiresAtNano, e.exp)
				}
			}
			if derr == nil && dst.EstimatedSize() != n {
				derr = fail(i, "save/load: the reloaded cache holds %d entries, the source %d live ones", dst.EstimatedSize(), n)
			}
			dst.StopAllGoroutines()
			if derr != nil {
				return derr, classes, false
			}
			saveLoads++
		case "advance":
			clock.Advance(a.Dur)
		case "cleanup":
			cache.CleanUp()
		}
		if err := reconcile(); err != nil {
			return err, classes, false
		}
		// the whole id space, each id looked up through a freshly built key
		for mid := 0; mid < c.IDs; mid++ {
			e, l := live(mid)
			g, ok := cache.GetEntryQuietly(key(mid))
			if ok != l || (ok && (g.Value != e.val || idOf(g.Key) != mid)) {
				return fail(i, "afterwards key #%d reads (%q,%v) through an equal, freshly built key; model holds %v", mid, g.Value, ok, descKT(e, l)), classes, false
			}
			if ok && c.TTL > 0 && g.ExpiresAtNano != e.exp {
				return fail(i, "afterwards key #%d has ExpiresAtNano %d, model %d", mid, g.ExpiresAtNano, e.exp), classes, false
			}
		}
		if sz := cache.EstimatedSize(); sz != len(model) {
			return fail(i, "EstimatedSize()=%d, but %d keys were written and neither removed nor reported evicted (one key stored twice, or a key lost?)", sz, len(model)), classes, false
		}
	}
	if evictions > 0 {
		classes = append(classes, "evictions")
	}
	if onExpired > 0 {
		classes = append(classes, "op-on-expired-unswept")
	}
	if saveLoads > 0 {
		classes = append(classes, "save-load")
	}
	if c.SaveLoad {
		return nil, classes, saveLoads > 0 && len(model) > 0
	}
	return nil, classes, len(c.Actions) >= 5
}

func descKT(e *ktEntry, live bool) string {
	if e == nil {
		return "nothing"
	}
	if !live {
		return fmt.Sprintf("an expired entry (%q, deadline %d)", e.val, e.exp)
	}
	return fmt.Sprintf("%q", e.val)
}

func runKT(c ktCase) (o outcome) {
	defer func() {
		if r := recover(); r != nil {
			o.Err = fmt.Errorf("key type %s: panic: %v", c.KeyType, r)
		}
	}()
	var err error
	var classes []string
	var nt bool
	switch c.KeyType {
	case "string":
		err, classes, nt = runKTGeneric(c, func(id, _ int) string { return freshString(id) }, func(k string) int {
			if k == "" {
				return 0
			}
			n, _ := strconv.Atoi(strings.TrimRight(strings.TrimPrefix(k, "key-"), "x"))
			return n
		})
	case "struct-string-int":
		err, classes, nt = runKTGeneric(c, func(id, _ int) ktStructSI { return ktStructSI{freshString(id % 5), id} }, func(k ktStructSI) int { return k.ID })
	case "struct-padded":
		err, classes, nt = runKTGeneric(c, func(id, _ int) ktPadded { return mkPadded(id) }, func(k ktPadded) int { return int(k.D) })
	case "array-of-strings":
		err, classes, nt = runKTGeneric(c, func(id, _ int) [2]string { return [2]string{freshString(id % 3), freshString(id + 1)} }, func(k [2]string) int {
			n, _ := strconv.Atoi(strings.TrimRight(strings.TrimPrefix(k[1], "key-"), "x"))
			return n - 1
		})
	case "float64":
		err, classes, nt = runKTGeneric(c, mkFloat, func(k float64) int { return int(k) })
	case "any":
		err, classes, nt = runKTGeneric(c, func(id, _ int) any { return mkAny(id) }, func(k any) int {
			switch x := k.(type) {
			case int:
				return x
			case string:
				n, _ := strconv.Atoi(strings.TrimRight(strings.TrimPrefix(x, "key-"), "x"))
				return n
			case ktStructSI:
				return x.ID
			case float64:
				return int(x * 2)
			}
			return -1
		})
	case "struct-any":
		err, classes, nt = runKTGeneric(c, func(id, _ int) ktStructAny { return ktStructAny{mkAny(id), int16(id)} }, func(k ktStructAny) int { return int(k.N) })
	case "pointer":
		err, classes, nt = runKTGeneric(c, func(id, _ int) *int { return ktPtrTable[id] }, func(k *int) int {
			for i, p := range ktPtrTable {
				if p == k {
					return i
				}
			}
			return -1
		})
	case "struct-float":
		err, classes, nt = runKTGeneric(c, func(id, call int) ktStructFloat { return ktStructFloat{mkFloat(id%2, call), freshString(id)} }, func(k ktStructFloat) int {
			if k.S == "" {
				return 0
			}
			n, _ := strconv.Atoi(strings.TrimRight(strings.TrimPrefix(k.S, "key-"), "x"))
			return n
		})
	case "nested":
		err, classes, nt = runKTGeneric(c, func(id, _ int) ktNested {
			return ktNested{ktStructSI{freshString(id % 4), id}, [2]string{freshString(id % 2), ""}, mkPadded(id % 9)}
		}, func(k ktNested) int { return k.In.ID })
	default:
		err = fmt.Errorf("unknown key type %q", c.KeyType)
	}
	o.Err = err
	o.NonTrivial = nt
	o.Classes = append(classes, "keytype:"+c.KeyType)
	if c.Max > 0 {
		o.Classes = append(o.Classes, "bounded")
	}
	if c.TTL > 0 {
		o.Classes = append(o.Classes, "expiring")
	}
	kinds := make([]string, 0, len(c.Actions))
	for _, a := range c.Actions {
		kinds = append(kinds, a.Op+a.Cop+a.Out)
	}
	o.Sig = vh.Sig(c.KeyType, fmt.Sprint(c.IDs, c.Max, c.TTL > 0, c.InitCap), strings.Join(kinds, ","))
	return o
}

func TestC01_KeyTypes(t *testing.T) {
	propMain(t, propSpec[ktCase]{
		Prop: "C01", Test: "KeyTypes",
		Rule: "a second sequential interpreter, generic in the key type (Cache[K,string]): strings incl. the empty and long ones, structs holding strings / padding bytes / interfaces / floats, arrays of strings, float64 with +0 and -0 as one key, interface keys of several dynamic types, pointers, nested structs; " +
			"every call builds a fresh representation of its key (never sharing storage with the key stored in the cache); unbounded or MaximumSize 1-64, optional ExpiryWriting, 1-250 actions (Set, SetIfAbsent, GetIfPresent, GetEntry, Compute*, Invalidate, InvalidateAll, SetExpiresAfter, Get/BulkGet with loaders, All, clock advances, CleanUp) over 3-300 ids; " +
			"return values, the callbacks' view, loader arguments, All(), EstimatedSize and a read-back of every id through a fresh key are compared with a map-with-deadlines model after every action (evictions are reconciled through the atomic handler); non-trivial = at least 5 actions",
		Assumptions: []string{"the Go runtime and sync primitives are trusted", "NaN keys (never equal to themselves) are not generated"},
		Gen:         genKT, Run: runKT,
	})
}

func TestC19_KeyTypes(t *testing.T) {
	propMain(t, propSpec[ktCase]{
		Prop: "C19", Test: "KeyTypes",
		Rule: "the key-type interpreter of C01 (Cache[K,string] with string / struct / padded struct / array / float / nested keys incl. zero-valued keys and fields, the empty string, +0 and -0; unbounded or MaximumSize, optional ExpiryWriting) with 'saveload' actions: SaveCacheTo, then LoadCacheFrom into a fresh cache of the same configuration; " +
			"oracle: every id live in the model is found in the reloaded cache through a freshly built key with its value and expiration deadline, nothing else is, and the reloaded cache holds exactly as many entries; non-trivial = at least one save/load of a non-empty cache",
		Assumptions: []string{"key types that gob cannot encode without registration (interfaces, pointers) are not saved"},
		Gen:         genKTSaveLoad, Run: runKT,
	})
}
