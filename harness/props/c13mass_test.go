package props

import (
	"fmt"
	"sync"
	"testing"
	"time"

	"github.com/maypok86/otter/v2"
	"github.com/maypok86/otter/v2/verifharness/vh"
	"pgregory.net/rapid"
)

// C13 at scale: thousands of entries fall due in one sweep. The statement has no "at most so many per maintenance run":
// whenever maintenance runs at T with nothing in flight, EVERY entry whose deadline (and whose write) lies more than one
// tick before T has been removed and reported. The S1 scripts hold at most a few dozen entries, so a per-cycle budget in
// the sweep (or in the notification path) is invisible to them.

type massCase struct {
	N        int   `json:"entries"`
	Bound    int   `json:"bound"`    // 0 unbounded, 1 MaximumSize >= N (nothing is ever evicted for size)
	Exec     int   `json:"executor"` // 0 caller-runs, 1 queued and run by CleanUp's caller beforehand
	TTLClass int   `json:"ttl_class"`
	Surv     int   `json:"survivors_per_100"`
	Batches  int   `json:"write_batches"`
	Origin   int64 `json:"origin"`
	Jumps    int   `json:"jumps"`
}

func genMass(t *rapid.T) massCase {
	return massCase{
		N:        pick(t, "n", 300, 1100, 2500, 6000),
		Bound:    rapid.IntRange(0, 1).Draw(t, "bound"),
		Exec:     rapid.IntRange(0, 1).Draw(t, "exec"),
		TTLClass: rapid.IntRange(0, 3).Draw(t, "ttl"),
		Surv:     pick(t, "surv", 0, 0, 5, 50),
		Batches:  pick(t, "batches", 1, 1, 3, 10),
		Origin:   pick(t, "origin", int64(0), 1_000_000_000_000, 1_700_000_000_000_000_000),
		Jumps:    rapid.IntRange(1, 3).Draw(t, "jumps"),
	}
}

type massClock struct {
	mu  sync.Mutex
	now int64
}

func (c *massClock) NowNano() int64                      { c.mu.Lock(); defer c.mu.Unlock(); return c.now }
func (c *massClock) Tick(time.Duration) <-chan time.Time { return nil }
func (c *massClock) set(v int64)                         { c.mu.Lock(); c.now = v; c.mu.Unlock() }

func runMass(c massCase) outcome {
	var o outcome
	const tick = int64(1) << 30
	clock := &massClock{now: c.Origin}
	ttlOf := func(v int) int64 {
		if c.Surv > 0 && v%100 < c.Surv {
			return 1 << 50 // survivors: two weeks
		}
		switch c.TTLClass {
		case 0:
			return 30 * int64(time.Second)
		case 1:
			return 1 + int64(v%5000)*int64(time.Millisecond) // spread over 5 s
		case 2:
			return int64(time.Minute) + int64(v%97)*tick // several wheel levels
		default:
			return 1 + int64(v%3) // a few nanoseconds
		}
	}
	var mu sync.Mutex
	events := map[int]int{}
	var queue []func()
	opts := &otter.Options[int, int]{
		Clock:  clock,
		Logger: &vh.RecLogger{},
		ExpiryCalculator: otter.ExpiryCreatingFunc(func(e otter.Entry[int, int]) time.Duration {
			return time.Duration(ttlOf(e.Value))
		}),
		OnDeletion: func(e otter.DeletionEvent[int, int]) {
			mu.Lock()
			defer mu.Unlock()
			if e.Cause != otter.CauseExpiration {
				events[-1-e.Key]++
				return
			}
			events[e.Key]++
		},
		Executor: func(fn func()) { fn() },
	}
	if c.Exec == 1 {
		opts.Executor = func(fn func()) { mu.Lock(); queue = append(queue, fn); mu.Unlock() }
	}
	if c.Bound == 1 {
		opts.MaximumSize = c.N + 10
	}
	runQueued := func() {
		for {
			mu.Lock()
			q := queue
			queue = nil
			mu.Unlock()
			if len(q) == 0 {
				return
			}
			for _, fn := range q {
				fn()
			}
		}
	}
	cache := otter.Must(opts)
	defer cache.StopAllGoroutines()
	deadline := make([]int64, c.N)
	writtenAt := make([]int64, c.N)
	per := (c.N + c.Batches - 1) / c.Batches
	for k := 0; k < c.N; k++ {
		if k > 0 && k%per == 0 {
			clock.set(clock.NowNano() + 1000)
			runQueued()
			cache.CleanUp()
		}
		now := clock.NowNano()
		cache.Set(k, k)
		deadline[k], writtenAt[k] = now+ttlOf(k), now
	}
	runQueued()
	swept := 0
	for j := 0; j < c.Jumps; j++ {
		// far enough for every non-survivor on the last jump; earlier jumps land in the middle of the deadlines
		var T int64
		switch {
		case j == c.Jumps-1:
			T = clock.NowNano() + 2*int64(time.Hour)
		default:
			T = clock.NowNano() + []int64{3 * int64(time.Second), 40 * int64(time.Second), 5 * int64(time.Minute)}[j%3]
		}
		clock.set(T)
		cache.CleanUp()
		runQueued()
		mu.Lock()
		want := 0
		var firstErr error
		for k := 0; k < c.N; k++ {
			due := deadline[k] < T-tick && writtenAt[k] < T-tick
			n := events[k]
			switch {
			case n > 1:
				firstErr = fmt.Errorf("jump %d: key %d was reported expired %d times", j, k, n)
			case n == 1 && deadline[k] > T:
				firstErr = fmt.Errorf("jump %d: key %d was reported expired at %d although its deadline is %d", j, k, T, deadline[k])
			case due && n == 0:
				if firstErr == nil {
					firstErr = fmt.Errorf("jump %d: CleanUp at clock %d (nothing in flight): key %d expired at %d, more than one tick (2^30 ns) ago, and was written at %d, but no Expiration event was delivered for it", j, T, k, deadline[k], writtenAt[k])
				}
			}
			if n == 0 {
				want++
			}
			if due {
				swept++
			}
		}
		for k, n := range events {
			if k < 0 && n > 0 {
				firstErr = fmt.Errorf("jump %d: key %d was removed with a cause other than Expiration in a cache that is never full", j, -1-k)
			}
		}
		mu.Unlock()
		if firstErr != nil {
			o.Err = firstErr
			return o
		}
		if sz := cache.EstimatedSize(); sz != want {
			o.Err = fmt.Errorf("jump %d: after CleanUp at clock %d EstimatedSize() is %d, but %d of %d entries have not been reported as expired", j, T, sz, want, c.N)
			return o
		}
	}
	o.NonTrivial = c.N >= 1100 && swept >= 1100
	if swept >= 1100 {
		o.Classes = append(o.Classes, "swept>=1100-in-a-case")
	}
	if c.Surv > 0 {
		o.Classes = append(o.Classes, "survivors")
	}
	o.Sig = vh.Sig(fmt.Sprint(c))
	return o
}

func TestC13_MassSweep(t *testing.T) {
	propMain(t, propSpec[massCase]{
		Prop: "C13", Test: "MassSweep",
		Rule: "300-6000 entries written in 1-10 batches with creation-time TTLs (30 s for all, spread over 5 s, spread over several wheel levels, a few ns; optionally 5-50 % survivors with two weeks), unbounded or never-full caches, caller-runs or queued executor, then 1-3 clock jumps (3 s .. 2 h) each followed by ONE CleanUp; " +
			"oracle after every CleanUp: every entry whose deadline and write lie more than one tick before the clock has been reported with cause Expiration exactly once, nothing is reported before its deadline, EstimatedSize equals the number of unreported entries; non-trivial = >= 1100 entries fell due in the case",
		Gen: genMass, Run: runMass,
	})
}
