package props

import (
	"fmt"
	"sync"
	"testing"
	"time"

	"github.com/maypok86/otter/v2/stats"
	"github.com/maypok86/otter/v2/verifharness/vh"
	"pgregory.net/rapid"
)

// TestC20_CounterModel drives stats.Counter - the recorder the cache's statistics are read from - directly, at a scale
// the cache-level scripts cannot reach: hundreds of thousands of recordings per case, weights up to 2^32-1, hit/miss
// batches up to 2^31, load times up to a minute. C20 says the counters "count exactly what happened" and "never decrease";
// a recorder that packs two counters into one word, narrows a sum, or loses increments under contention is only visible
// once the totals pass a threshold (2^32 of evicted weight, 2^24 evictions ...).
//
// Sequential part: after every batch the snapshot equals the exact sums (all totals stay far below 2^63, the documented
// overflow caveat is never in play) and no field has decreased. Concurrent part: the same batches spread over 2-8
// goroutines; the totals at quiescence are exact.

type ctrOp struct {
	Kind   string `json:"kind"` // hits misses evict loadok loadfail
	Arg    int64  `json:"arg"`
	Repeat int    `json:"repeat"`
}

type ctrCase struct {
	Goroutines int     `json:"goroutines"` // 1 = sequential with a snapshot after every batch
	Ops        []ctrOp `json:"ops"`
}

func genCtr(t *rapid.T) ctrCase {
	c := ctrCase{Goroutines: pick(t, "g", 1, 1, 2, 4, 8)}
	c.Ops = rapid.SliceOfN(rapid.Custom(func(t *rapid.T) ctrOp {
		op := ctrOp{Kind: pick(t, "kind", "hits", "misses", "evict", "evict", "evict", "loadok", "loadfail")}
		switch op.Kind {
		case "hits", "misses":
			op.Arg = pick(t, "n", int64(1), 1, 2, 7, 1<<16, 1<<31-1)
		case "evict":
			op.Arg = pick(t, "w", int64(0), 1, 1, 3, 1<<16, 1<<24, 1<<30, 1<<31, 1<<32-1)
		default:
			op.Arg = pick(t, "d", int64(0), 1, 1000, int64(time.Second), int64(time.Minute))
		}
		op.Repeat = pick(t, "rep", 1, 1, 10, 300, 5000, 70000)
		return op
	}), 1, 40).Draw(t, "ops")
	return c
}

func applyCtr(c *stats.Counter, op ctrOp) {
	for i := 0; i < op.Repeat; i++ {
		switch op.Kind {
		case "hits":
			c.RecordHits(int(op.Arg))
		case "misses":
			c.RecordMisses(int(op.Arg))
		case "evict":
			c.RecordEviction(uint32(op.Arg))
		case "loadok":
			c.RecordLoadSuccess(time.Duration(op.Arg))
		case "loadfail":
			c.RecordLoadFailure(time.Duration(op.Arg))
		}
	}
}

func addCtr(m *stats.Stats, op ctrOp) {
	n := uint64(op.Repeat)
	switch op.Kind {
	case "hits":
		m.Hits += n * uint64(op.Arg)
	case "misses":
		m.Misses += n * uint64(op.Arg)
	case "evict":
		m.Evictions += n
		m.EvictionWeight += n * uint64(op.Arg)
	case "loadok":
		m.LoadSuccesses += n
		m.TotalLoadTime += time.Duration(n) * time.Duration(op.Arg)
	case "loadfail":
		m.LoadFailures += n
		m.TotalLoadTime += time.Duration(n) * time.Duration(op.Arg)
	}
}

func runCtr(c ctrCase) outcome {
	var o outcome
	ctr := stats.NewCounter()
	var model, prev stats.Stats
	fields := func(s stats.Stats) [7]uint64 {
		return [7]uint64{s.Hits, s.Misses, s.Evictions, s.EvictionWeight, s.LoadSuccesses, s.LoadFailures, uint64(s.TotalLoadTime)}
	}
	names := [7]string{"Hits", "Misses", "Evictions", "EvictionWeight", "LoadSuccesses", "LoadFailures", "TotalLoadTime"}
	compare := func(where string) error {
		got, want := fields(ctr.Snapshot()), fields(model)
		for i := range got {
			if got[i] != want[i] {
				return fmt.Errorf("%s: %s = %d, recorded in total %d", where, names[i], got[i], want[i])
			}
			if got[i] < fields(prev)[i] {
				return fmt.Errorf("%s: %s decreased from %d to %d", where, names[i], fields(prev)[i], got[i])
			}
		}
		prev = ctr.Snapshot()
		return nil
	}
	if c.Goroutines <= 1 {
		for i, op := range c.Ops {
			applyCtr(ctr, op)
			addCtr(&model, op)
			if err := compare(fmt.Sprintf("after batch %d (%s x%d, arg %d)", i, op.Kind, op.Repeat, op.Arg)); err != nil {
				o.Err = err
				return o
			}
		}
	} else {
		var wg sync.WaitGroup
		for g := 0; g < c.Goroutines; g++ {
			wg.Add(1)
			go func(g int) {
				defer wg.Done()
				for i, op := range c.Ops {
					if i%c.Goroutines == g {
						applyCtr(ctr, op)
					}
				}
			}(g)
		}
		for _, op := range c.Ops {
			addCtr(&model, op)
		}
		wg.Wait()
		if err := compare(fmt.Sprintf("at quiescence after %d goroutines", c.Goroutines)); err != nil {
			o.Err = err
			return o
		}
	}
	o.NonTrivial = model.EvictionWeight >= 1<<33 || model.Evictions >= 1<<17 || model.Hits >= 1<<33
	if model.EvictionWeight >= 1<<33 {
		o.Classes = append(o.Classes, "evicted-weight>=2^33")
	}
	if model.EvictionWeight >= 1<<41 {
		o.Classes = append(o.Classes, "evicted-weight>=2^41")
	}
	if model.Evictions >= 1<<17 {
		o.Classes = append(o.Classes, "evictions>=2^17")
	}
	if c.Goroutines > 1 {
		o.Classes = append(o.Classes, "concurrent-recorders")
	}
	o.Sig = vh.Sig(fmt.Sprint(c))
	return o
}

func TestC20_CounterModel(t *testing.T) {
	propMain(t, propSpec[ctrCase]{
		Prop: "C20", Test: "CounterModel",
		Rule: "stats.Counter driven directly: 1-40 batches of 1..70000 identical recordings (hit/miss batches up to 2^31-1, eviction weights 0..2^32-1, load times up to a minute), sequentially with a snapshot after every batch or spread over 2-8 goroutines; " +
			"oracle: every field of the snapshot equals the exact sum of what was recorded (totals stay below 2^56) and never decreases; non-trivial = total evicted weight >= 2^33, or >= 2^17 evictions, or >= 2^33 hits",
		Gen: genCtr, Run: runCtr,
	})
}
