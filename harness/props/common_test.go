package props

import (
	"encoding/json"
	"errors"
	"fmt"
	"os"
	"path/filepath"
	"strings"
	"testing"

	"github.com/maypok86/otter/v2/verifharness/vh"
	"pgregory.net/rapid"
)

// s1Spec describes one S1 (single goroutine, scripted) property run.
type s1Spec struct {
	Prop         string
	Test         string
	Rule         string
	Profile      *vh.Profile
	Facets       vh.Facet
	FinalQuiesce bool
	Known        map[string]bool
	NonTrivial   func(r *vh.Runner) bool
	Classes      func(r *vh.Runner) []string
	Assumptions  []string
}

var knownFindings = loadKnownFindings()

// loadKnownFindings reads /verif/KNOWN_FINDINGS.json (open findings only).
func loadKnownFindings() map[string]map[string]string {
	out := map[string]map[string]string{}
	path := os.Getenv("VERIF_KNOWN")
	if path == "" {
		path = "/verif/KNOWN_FINDINGS.json"
	}
	b, err := os.ReadFile(path)
	if err != nil {
		return out
	}
	var f struct {
		Open []struct {
			Property   string `json:"property"`
			Recogniser string `json:"recogniser"`
			What       string `json:"what"`
		} `json:"open"`
	}
	if json.Unmarshal(b, &f) != nil {
		return out
	}
	for _, o := range f.Open {
		if out[o.Property] == nil {
			out[o.Property] = map[string]string{}
		}
		out[o.Property][o.Recogniser] = o.What
	}
	return out
}

func knownFor(prop string) map[string]bool {
	m := map[string]bool{}
	for rec := range knownFindings[prop] {
		m[rec] = true
	}
	return m
}

func sigOf(r *vh.Runner) uint64 {
	cfg := r.Cfg
	return vh.Sig(cfg.Layout(), fmt.Sprint(cfg.Expiry, cfg.Refresh, cfg.Executor, cfg.InitCap), strings.Join(r.St.Kinds, ","),
		fmt.Sprint(r.St.AutoOverflow, r.St.AutoExpiration, r.St.OpsOnExpired, r.St.Loads, r.St.Reloads))
}

func runS1(t *testing.T, spec s1Spec) {
	ev := vh.NewEvid(spec.Prop, spec.Test, spec.Rule, spec.Assumptions...)
	var lastFail *vh.Script
	var lastMsg string
	known := spec.Known
	if known == nil {
		known = knownFor(spec.Prop)
	}
	knownSeen := map[string]int{}
	defer func() {
		failed := t.Failed()
		for name, n := range knownSeen {
			if n > 0 {
				vh.KnownFindingLine(spec.Prop, knownFindings[spec.Prop][name]+" [recogniser "+name+"]")
			}
		}
		if failed && lastFail != nil {
			vh.ReportViolation(spec.Prop, spec.Test, lastFail, lastMsg)
		}
		ev.Write(failed)
	}()
	// regression tier: saved minimal scripts of earlier findings, run without the generator
	for _, rs := range loadRegress(spec.Prop, spec.Test) {
		r, err := vh.RunScript(rs, spec.Facets, known, spec.FinalQuiesce)
		ev.Class("regress-script", 1)
		ev.Case(sigOf(r), true, nil, func() any { return rs })
		if err != nil && !errors.Is(err, vh.ErrAbort) {
			lastFail, lastMsg = rs, err.Error()
			t.Fatalf("%s (regression script): %v", spec.Prop, err)
		}
	}
	rapid.Check(t, func(rt *rapid.T) {
		s := vh.GenScript(rt, spec.Profile)
		r, err := vh.RunScript(s, spec.Facets, known, spec.FinalQuiesce)
		for name, n := range r.St.Known {
			knownSeen[name] += n
			for i := 0; i < n; i++ {
				ev.Known(name)
			}
		}
		classes := []string{"layout:" + s.Cfg.Layout(), fmt.Sprintf("executor:%d", s.Cfg.Executor)}
		if spec.Classes != nil {
			classes = append(classes, spec.Classes(r)...)
		}
		if errors.Is(err, vh.ErrAbort) {
			ev.Aborted()
			classes = append(classes, "ended-on-unjudged-facet:"+r.AbortFacet)
			if os.Getenv("VERIF_DEBUG_ABORT") != "" {
				fmt.Fprintf(os.Stderr, "ABORT [%s] %s\n", r.AbortFacet, r.AbortMsg)
			}
			ev.Case(sigOf(r), false, classes, nil)
			return
		}
		if r.Unjudged > 0 {
			classes = append(classes, "passed-over-unjudged-disagreement:"+r.AbortFacet)
		}
		nt := spec.NonTrivial(r)
		ev.Case(sigOf(r), nt, classes, func() any { return s })
		if err != nil {
			lastFail = s
			lastMsg = err.Error()
			rt.Fatalf("%s: %v", spec.Prop, err)
		}
	})
}

func loadRegress(prop, test string) []*vh.Script {
	dir := os.Getenv("VERIF_REGRESS")
	if dir == "" {
		dir = "/verif/regress"
	}
	ents, err := os.ReadDir(filepath.Join(dir, prop))
	if err != nil {
		return nil
	}
	var out []*vh.Script
	for _, e := range ents {
		b, err := os.ReadFile(filepath.Join(dir, prop, e.Name()))
		if err != nil {
			continue
		}
		var f struct {
			Test string    `json:"test"`
			Case vh.Script `json:"case"`
		}
		if json.Unmarshal(b, &f) != nil || f.Test != test {
			continue
		}
		c := f.Case
		out = append(out, &c)
	}
	return out
}

// replayS1 re-runs a saved script without rapid.
func replayS1(t *testing.T, spec s1Spec, path string) {
	b, err := os.ReadFile(path)
	if err != nil {
		t.Fatalf("read replay: %v", err)
	}
	var f struct {
		Case vh.Script `json:"case"`
	}
	if err := json.Unmarshal(b, &f); err != nil {
		t.Fatalf("decode replay: %v", err)
	}
	known := spec.Known
	if known == nil {
		known = knownFor(spec.Prop)
	}
	// The cache draws a random hash seed per instance (it decides eviction victims), so a script that
	// failed once may need several attempts to fail again.
	for attempt := 0; attempt < 50; attempt++ {
		_, err = vh.RunScript(&f.Case, spec.Facets, known, spec.FinalQuiesce)
		if err != nil && !errors.Is(err, vh.ErrAbort) {
			break
		}
	}
	if err != nil && !errors.Is(err, vh.ErrAbort) {
		fmt.Printf("VERIF-VIOLATION property=%s test=%s replay=%s\n", spec.Prop, spec.Test, path)
		t.Fatalf("%s: %v", spec.Prop, err)
	}
}

func s1Main(t *testing.T, spec s1Spec) {
	if os.Getenv("VERIF_ALLFACETS") != "" {
		spec.Facets = vh.FAll
	}
	if p := os.Getenv("VERIF_REPLAY"); p != "" {
		replayS1(t, spec, p)
		return
	}
	runS1(t, spec)
}
