package props

import (
	"fmt"
	"iter"
	"math/rand"
	"runtime"
	"sync"
	"sync/atomic"
	"testing"
	"time"

	"github.com/maypok86/otter/v2"
	"github.com/maypok86/otter/v2/verifharness/vh"
	"pgregory.net/rapid"
)

// C15 (c): cache-level iteration during churn.

type iterCase struct {
	Expiry  bool  `json:"expiry"`
	Stable  int   `json:"stable_keys"`
	Expired int   `json:"expired_before_keys"`
	Workers int   `json:"workers"`
	Ops     int   `json:"ops_per_worker"`
	Churn   int   `json:"churn_keys"`
	Filler  int   `json:"filler_keys"`
	InitCap int   `json:"init_cap"`
	Seed    int64 `json:"seed"`
	Procs   int   `json:"gomaxprocs"`
	Noise   int   `json:"noise"`
}

func genIter(t *rapid.T) iterCase {
	return iterCase{
		Expiry:  rapid.Bool().Draw(t, "expiry"),
		Stable:  rapid.IntRange(1, 400).Draw(t, "stable"),
		Expired: rapid.IntRange(0, 100).Draw(t, "expired"),
		Workers: rapid.IntRange(1, 8).Draw(t, "workers"),
		Ops:     rapid.IntRange(50, 2000).Draw(t, "ops"),
		Churn:   rapid.IntRange(1, 300).Draw(t, "churn"),
		Filler:  pick(t, "filler", 0, 500, 3000),
		InitCap: pick(t, "initcap", 0, 1, 1000),
		Seed:    rapid.Int64().Draw(t, "seed"),
		Procs:   pick(t, "procs", 16, 16, 4, 3),
		Noise:   pick(t, "noise", 0, 1, 2),
	}
}

func runIter(c iterCase) outcome {
	var o outcome
	if c.Procs > 0 {
		defer runtime.GOMAXPROCS(runtime.GOMAXPROCS(c.Procs))
	}
	if c.Noise > 0 {
		sl := 0
		if c.Noise == 2 {
			sl = 20
		}
		defer vh.InstallNoise(uint64(c.Seed), 200, sl)()
	}
	clock := &vh.ManualClock{}
	clock.Set(1_000_000)
	opts := &otter.Options[int, int]{Clock: clock, InitialCapacity: c.InitCap, Logger: &vh.RecLogger{}}
	if c.Expiry {
		opts.ExpiryCalculator = otter.ExpiryWriting[int, int](1000 * time.Nanosecond)
	}
	cache := otter.Must(opts)
	defer cache.StopAllGoroutines()
	const baseStable, baseExpired, baseChurn, baseFiller = 1_000_000, 2_000_000, 0, 3_000_000
	nExpired := 0
	var earlyAll iter.Seq2[int, int]
	var earlyKeys iter.Seq[int]
	if c.Expiry {
		nExpired = c.Expired
		for i := 0; i < nExpired; i++ {
			cache.Set(baseExpired+i, i)
		}
		// iterators obtained while those keys are still live, ranged (again and again) only after they have expired:
		// an iteration must not yield an entry that had expired before it (the ranging) began
		earlyAll, earlyKeys = cache.All(), cache.Keys()
		clock.Advance(5000) // every key written so far has expired (and is not swept: no maintenance tick passed)
	} else {
		// without expiry: keys removed before the iteration began
		nExpired = c.Expired
		for i := 0; i < nExpired; i++ {
			cache.Set(baseExpired+i, i)
		}
		for i := 0; i < nExpired; i++ {
			cache.Invalidate(baseExpired + i)
		}
	}
	for i := 0; i < c.Stable; i++ {
		cache.Set(baseStable+i, i)
	}
	var bad atomic.Pointer[string]
	fail := func(f string, a ...any) { s := fmt.Sprintf(f, a...); bad.CompareAndSwap(nil, &s) }
	var iterations atomic.Int64
	g0, s0 := cache.VerifTableResizes()
	var wg sync.WaitGroup
	var stop atomic.Bool
	iterate := func(which int) {
		seen := map[int]int{}
		switch which {
		case 0:
			for k := range cache.All() {
				seen[k]++
			}
		case 1:
			for k := range cache.Keys() {
				seen[k]++
			}
		case 2:
			for k := range earlyAll {
				seen[k]++
			}
		case 3:
			for k := range earlyKeys {
				seen[k]++
			}
		}
		for k, n := range seen {
			if n > 1 {
				fail("an iteration yielded key %d %d times", k, n)
			}
			if k >= baseExpired && k < baseFiller {
				fail("an iteration yielded key %d, which had expired / been removed before the iteration began", k)
			}
		}
		for i := 0; i < c.Stable && which < 2; i++ { // (an iterator created before the stable keys were written need not show them)
			if seen[baseStable+i] != 1 {
				fail("an iteration yielded stable key %d %d times (it was present and live for the whole iteration)", baseStable+i, seen[baseStable+i])
			}
		}
		iterations.Add(1)
	}
	nVariants := 2
	if c.Expiry {
		nVariants = 4
	}
	for w := 0; w < c.Workers; w++ {
		wg.Add(1)
		go func(w int) {
			defer wg.Done()
			rng := rand.New(rand.NewSource(c.Seed + int64(w)*7919))
			for i := 0; i < c.Ops && bad.Load() == nil; i++ {
				k := baseChurn + rng.Intn(c.Churn)
				switch r := rng.Intn(100); {
				case r < 45:
					cache.Set(k, i)
				case r < 75:
					cache.Invalidate(k)
				case r < 90:
					cache.GetIfPresent(baseStable + rng.Intn(c.Stable))
				default:
					iterate(rng.Intn(nVariants))
				}
			}
		}(w)
	}
	if c.Filler > 0 {
		wg.Add(1)
		go func() {
			defer wg.Done()
			for wave := 0; wave < 2 && !stop.Load(); wave++ {
				for i := 0; i < c.Filler; i++ {
					cache.Set(baseFiller+i, i)
				}
				for i := 0; i < c.Filler; i++ {
					cache.Invalidate(baseFiller + i)
				}
			}
		}()
	}
	wg.Add(1)
	go func() {
		defer wg.Done()
		for i := 0; i < 20 && bad.Load() == nil; i++ {
			iterate(i % nVariants)
		}
	}()
	wg.Wait()
	stop.Store(true)
	if s := bad.Load(); s != nil {
		o.Err = fmt.Errorf("%s", *s)
		return o
	}
	g1, s1 := cache.VerifTableResizes()
	o.NonTrivial = iterations.Load() > 0 && (g1 > g0 || s1 > s0) && nExpired > 0
	if g1 > g0 {
		o.Classes = append(o.Classes, "table-grew-during-iteration-phase")
	}
	if s1 > s0 {
		o.Classes = append(o.Classes, "table-shrank-during-iteration-phase")
	}
	if c.Expiry {
		o.Classes = append(o.Classes, "expired-unswept-set")
	} else {
		o.Classes = append(o.Classes, "removed-before-set")
	}
	o.Sig = vh.Sig(fmt.Sprint(c))
	return o
}

func TestC15_CacheIteration(t *testing.T) {
	propMain(t, propSpec[iterCase]{
		Prop: "C15", Test: "CacheIteration",
		Rule: "free-running: a cache (unbounded, with or without write-based expiry, manual clock frozen during the run) is preloaded with a set of keys that expired (clock advanced past their TTL, not swept) or were removed before the run and a stable set of 1-400 live keys; 1-8 workers then churn other keys (Set/Invalidate), read stable keys and run All()/Keys() - fresh iterators, and (with expiry) iterators that were obtained while the expired set was still live and are ranged, repeatedly, after its deadline - , " +
			"a filler goroutine inserts and removes up to 3000 keys in waves (table growth and shrink), GOMAXPROCS 3..16, optional delays at hook points; oracle for every iteration: no key twice, never a key of the expired/removed-before set, every stable key exactly once; non-trivial = iterations ran while the table was resized and the expired/removed set was non-empty",
		Assumptions: []string{"schedules are sampled by the Go runtime, not enumerated"},
		Gen:         genIter, Run: runIter,
	})
}
