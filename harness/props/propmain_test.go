package props

import (
	"encoding/json"
	"errors"
	"fmt"
	"os"
	"path/filepath"
	"testing"

	"github.com/maypok86/otter/v2/verifharness/vh"
	"pgregory.net/rapid"
)

// outcome of running one generated case
type outcome struct {
	NonTrivial bool
	Classes    []string
	Sig        uint64
	Err        error    // violation
	Inconcl    bool     // budget hit: neither pass nor violation
	Known      []string // listed known findings recognised in this case (the case is excluded by construction)
}

type propSpec[C any] struct {
	Prop, Test, Rule string
	Assumptions      []string
	Gen              func(*rapid.T) C
	Run              func(C) outcome
	// Enrich, if set, turns a failing case into its replay artefact (e.g. adds the recorded history).
	Enrich func(C) C
}

var errInconclusive = errors.New("inconclusive")

// propMain drives one generated-case property: regression cases, rapid search,
// replay, evidence and the violation marker.
func propMain[C any](t *testing.T, spec propSpec[C]) {
	if p := os.Getenv("VERIF_REPLAY"); p != "" {
		b, err := os.ReadFile(p)
		if err != nil {
			t.Fatalf("read replay: %v", err)
		}
		var f struct {
			Case C `json:"case"`
		}
		if err := json.Unmarshal(b, &f); err != nil {
			t.Fatalf("decode replay: %v", err)
		}
		for attempt := 0; attempt < 20; attempt++ {
			o := spec.Run(f.Case)
			for _, k := range o.Known {
				vh.KnownFindingLine(spec.Prop, knownFindings[spec.Prop][k]+" [recogniser "+k+"]")
			}
			if o.Err != nil {
				vh.ReportViolationAt(spec.Prop, spec.Test, p)
				t.Fatalf("%s: %v", spec.Prop, o.Err)
			}
		}
		return
	}
	ev := vh.NewEvid(spec.Prop, spec.Test, spec.Rule, spec.Assumptions...)
	var lastFail *C
	var lastMsg string
	knownSeen := map[string]int{}
	defer func() {
		failed := t.Failed()
		for name, n := range knownSeen {
			if n > 0 {
				vh.KnownFindingLine(spec.Prop, knownFindings[spec.Prop][name]+" [recogniser "+name+"]")
			}
		}
		if failed && lastFail != nil {
			vh.ReportViolation(spec.Prop, spec.Test, lastFail, lastMsg)
		}
		ev.Write(failed)
	}()
	// regression tier: saved minimal cases of earlier findings, run without the generator
	for _, rc := range loadRegressCases[C](spec.Prop, spec.Test) {
		o := spec.Run(rc)
		ev.Class("regress-case", 1)
		ev.Case(vh.Sig(fmt.Sprint(rc)), true, nil, func() any { return rc })
		if o.Err != nil {
			cc := rc
			lastFail, lastMsg = &cc, o.Err.Error()
			t.Fatalf("%s (regression case): %v", spec.Prop, o.Err)
		}
	}
	rapid.Check(t, func(rt *rapid.T) {
		c := spec.Gen(rt)
		o := spec.Run(c)
		if o.Inconcl {
			ev.Inconclusive()
			return
		}
		for _, k := range o.Known {
			knownSeen[k]++
			ev.Known(k)
			ev.Excluded(k)
		}
		ev.Case(o.Sig, o.NonTrivial, o.Classes, func() any { return c })
		if o.Err != nil {
			cc := c
			if spec.Enrich != nil {
				cc = spec.Enrich(c)
			}
			lastFail, lastMsg = &cc, o.Err.Error()
			rt.Fatalf("%s: %v", spec.Prop, o.Err)
		}
	})
}

func loadRegressCases[C any](prop, test string) []C {
	dir := os.Getenv("VERIF_REGRESS")
	if dir == "" {
		dir = "/verif/regress"
	}
	ents, err := os.ReadDir(filepath.Join(dir, prop))
	if err != nil {
		return nil
	}
	var out []C
	for _, e := range ents {
		b, err := os.ReadFile(filepath.Join(dir, prop, e.Name()))
		if err != nil {
			continue
		}
		var f struct {
			Test string `json:"test"`
			Case C      `json:"case"`
		}
		if json.Unmarshal(b, &f) != nil || f.Test != test {
			continue
		}
		out = append(out, f.Case)
	}
	return out
}
