package props

import (
	"context"
	"fmt"
	"runtime"
	"sync"
	"sync/atomic"
	"testing"
	"time"

	"github.com/maypok86/otter/v2"
	"github.com/maypok86/otter/v2/verifharness/vh"
	"pgregory.net/rapid"
)

// Free-running termination check for the bulk paths: goroutines released together call BulkRefresh / BulkGet / Refresh /
// Get over OVERLAPPING sets of fresh absent keys, each in its own key order, so that every caller owns the loads of some
// keys and joins the loads of others. C08: "every such call returns". Nothing here blocks on the harness - loaders return
// at once - so a round that makes no progress at all for 15 s (no loader entered or left, no call returned, no result
// delivered) while calls are outstanding is a cycle of waiters: each call waits for a load that another waiting call owns
// and has not started.

type bcCase struct {
	Callers int   `json:"callers"`
	Rounds  int   `json:"rounds"`
	Keys    int   `json:"keys_per_round"`
	Mix     int   `json:"mix"` // 0: BulkRefresh only, 1: BulkRefresh + BulkGet, 2: + Refresh and Get
	Spin    int   `json:"loader_yields"`
	Procs   int   `json:"gomaxprocs"`
	Exec    int   `json:"executor"` // 0 default (go fn()), 1 a pool of two worker goroutines
	Seed    int64 `json:"seed"`
}

func genBC(t *rapid.T) bcCase {
	return bcCase{
		Callers: rapid.IntRange(2, 6).Draw(t, "callers"),
		Rounds:  rapid.IntRange(5, 40).Draw(t, "rounds"),
		Keys:    pick(t, "keys", 2, 8, 64, 512),
		Mix:     rapid.IntRange(0, 2).Draw(t, "mix"),
		Spin:    pick(t, "spin", 0, 2, 20),
		Procs:   pick(t, "procs", 16, 16, 4, 2),
		Exec:    pick(t, "exec", 0, 0, 1),
		Seed:    rapid.Int64().Draw(t, "seed"),
	}
}

func runBC(c bcCase) outcome {
	var o outcome
	if c.Procs > 0 {
		defer runtime.GOMAXPROCS(runtime.GOMAXPROCS(c.Procs))
	}
	var progress atomic.Int64
	var clock atomic.Int64
	type span struct {
		key      int
		from, to int64
	}
	var mu sync.Mutex
	var spans []span
	load := func(k int) int {
		progress.Add(1)
		from := clock.Add(1)
		for i := 0; i < c.Spin; i++ {
			runtime.Gosched()
		}
		to := clock.Add(1)
		mu.Lock()
		spans = append(spans, span{k, from, to})
		mu.Unlock()
		progress.Add(1)
		return k*1000 + 7
	}
	many := func(ks []int) map[int]int {
		m := map[int]int{}
		for _, k := range ks {
			m[k] = load(k)
		}
		return m
	}
	loader := vhLoader{
		load:   func(k int) (int, error) { return load(k), nil },
		reload: func(k, old int) (int, error) { return load(k), nil },
	}
	bulk := vhBulkLoader{
		load:   func(ks []int) (map[int]int, error) { return many(ks), nil },
		reload: func(ks, olds []int) (map[int]int, error) { return many(ks), nil },
	}
	opts := &otter.Options[int, int]{Logger: &vh.RecLogger{}, RefreshCalculator: otter.RefreshWriting[int, int](time.Hour)}
	var tasks chan func()
	if c.Exec == 1 {
		tasks = make(chan func(), 1<<16)
		for w := 0; w < 2; w++ {
			go func() {
				for fn := range tasks {
					fn()
				}
			}()
		}
		opts.Executor = func(fn func()) { tasks <- fn }
		defer close(tasks)
	}
	cache := otter.Must(opts)
	defer cache.StopAllGoroutines()
	var bad atomic.Pointer[string]
	fail := func(f string, a ...any) {
		s := fmt.Sprintf(f, a...)
		bad.CompareAndSwap(nil, &s)
	}
	ctx := context.Background()
	for r := 0; r < c.Rounds && bad.Load() == nil; r++ {
		var start, done sync.WaitGroup
		start.Add(1)
		base := r * 1000
		for g := 0; g < c.Callers; g++ {
			done.Add(1)
			go func(g int) {
				defer done.Done()
				defer progress.Add(1)
				// this caller's view of the round's key set: a rotation, reversed for odd callers
				ks := make([]int, c.Keys)
				for i := range ks {
					j := (i + g*(c.Keys/c.Callers+1)) % c.Keys
					if g%2 == 1 {
						j = c.Keys - 1 - j
					}
					ks[i] = base + j
				}
				start.Wait()
				kind := 0
				if c.Mix >= 1 && g%3 == 1 {
					kind = 1
				}
				if c.Mix >= 2 && g%3 == 2 {
					kind = 2
				}
				switch kind {
				case 0:
					ch := cache.BulkRefresh(ctx, ks, bulk)
					if ch == nil {
						fail("BulkRefresh returned no channel although refreshing is configured")
						return
					}
					res := <-ch
					got := map[int]bool{}
					for _, rr := range res {
						if rr.Err != nil || rr.Value != rr.Key*1000+7 {
							fail("BulkRefresh delivered (%d,%d,%v)", rr.Key, rr.Value, rr.Err)
						}
						got[rr.Key] = true
					}
					for _, k := range ks {
						if !got[k] {
							fail("BulkRefresh(%d keys) delivered no result for key %d", len(ks), k)
						}
					}
				case 1:
					res, err := cache.BulkGet(ctx, ks, bulk)
					for _, k := range ks {
						if err != nil || res[k] != k*1000+7 {
							fail("BulkGet(%d keys): key %d -> %d, %v", len(ks), k, res[k], err)
							break
						}
					}
				default:
					for i, k := range ks {
						if i%2 == 0 {
							if v, err := cache.Get(ctx, k, loader); err != nil || v != k*1000+7 {
								fail("Get(%d) returned (%d,%v)", k, v, err)
							}
						} else if ch := cache.Refresh(ctx, k, loader); ch != nil {
							if rr := <-ch; rr.Err != nil || rr.Value != k*1000+7 {
								fail("Refresh(%d) delivered (%d,%v)", k, rr.Value, rr.Err)
							}
						}
						if i >= 16 {
							break
						}
					}
				}
			}(g)
		}
		finished := make(chan struct{})
		go func() { done.Wait(); close(finished) }()
		start.Done()
		// idle ticks are counted, not wall time: a process that is frozen or starved for a while accumulates no ticks
		last, idle := progress.Load(), 0
		ticker := time.NewTicker(200 * time.Millisecond)
	wait:
		for {
			select {
			case <-finished:
				break wait
			case <-ticker.C:
				if p := progress.Load(); p != last {
					last, idle = p, 0
				} else if idle++; idle >= 75 {
					ticker.Stop()
					o.Err = fmt.Errorf("round %d: %d callers over %d overlapping absent keys: no loader was entered or left and no call returned for 15 s although calls are outstanding (in-flight records: %d) - a cycle of waiters, the calls never return", r, c.Callers, c.Keys, cache.VerifInFlightCalls())
					return o
				}
			}
		}
		ticker.Stop()
	}
	if s := bad.Load(); s != nil {
		o.Err = fmt.Errorf("%s", *s)
		return o
	}
	perKey := map[int][]span{}
	for _, s := range spans {
		perKey[s.key] = append(perKey[s.key], s)
	}
	joined := 0
	for k, ss := range perKey {
		for i := range ss {
			for j := i + 1; j < len(ss); j++ {
				if ss[i].from <= ss[j].to && ss[j].from <= ss[i].to {
					o.Err = fmt.Errorf("two loader invocations for key %d overlapped in time ([%d,%d] and [%d,%d]) although the key was never written, invalidated or evicted", k, ss[i].from, ss[i].to, ss[j].from, ss[j].to)
					return o
				}
			}
		}
		if len(ss) < c.Callers {
			joined++
		}
	}
	// quiescence of the executor: every refresh task has delivered its result above, so nothing is in flight
	if n := cache.VerifInFlightCalls(); n != 0 {
		o.Err = fmt.Errorf("%d in-flight records left after every call returned and every result was delivered", n)
		return o
	}
	o.NonTrivial = joined > 0 && c.Keys >= 8
	if c.Keys >= 64 {
		o.Classes = append(o.Classes, "keys>=64")
	}
	o.Classes = append(o.Classes, fmt.Sprintf("mix-%d", c.Mix))
	o.Sig = vh.Sig(fmt.Sprint(c))
	return o
}

func TestC08_S4BulkCycles(t *testing.T) {
	propMain(t, propSpec[bcCase]{
		Prop: "C08", Test: "S4BulkCycles",
		Rule: "free-running: 2-6 callers released together call BulkRefresh (optionally BulkGet, Refresh, Get) over the same 2-512 fresh absent keys per round, each in its own rotation/reversal of the key order, so that every caller owns some loads and joins others; loaders return at once (with yields), default executor or a two-worker pool; " +
			"oracle: every call returns and every result channel delivers (no progress of any kind for 15 s with calls outstanding = a cycle of waiters), results are the loaded values for every requested key, no two loader invocations for one key overlap, no in-flight record remains; non-trivial = >= 8 keys and some loads were joined",
		Assumptions: []string{"schedules are sampled by the Go runtime, not enumerated", "the 15 s no-progress monitor is the only wall-clock verdict: nothing in a round waits for the harness"},
		Gen:         genBC, Run: runBC,
	})
}

type vhLoader struct {
	load   func(k int) (int, error)
	reload func(k, old int) (int, error)
}

func (l vhLoader) Load(ctx context.Context, k int) (int, error)        { return l.load(k) }
func (l vhLoader) Reload(ctx context.Context, k, old int) (int, error) { return l.reload(k, old) }

type vhBulkLoader struct {
	load   func(ks []int) (map[int]int, error)
	reload func(ks, olds []int) (map[int]int, error)
}

func (l vhBulkLoader) BulkLoad(ctx context.Context, ks []int) (map[int]int, error) { return l.load(ks) }
func (l vhBulkLoader) BulkReload(ctx context.Context, ks, olds []int) (map[int]int, error) {
	return l.reload(ks, olds)
}
