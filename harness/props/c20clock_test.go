package props

import (
	"fmt"
	"testing"
	"time"

	"github.com/maypok86/otter/v2"
	"github.com/maypok86/otter/v2/stats"
	"github.com/maypok86/otter/v2/verifharness/vh"
	"pgregory.net/rapid"
)

// C20: "a lookup counts as a hit exactly when it found an unexpired entry". What an operation found is decided once, at
// the clock value the operation sampled when it began - that is also what its callback is told (found / the old value) and
// what it returns. Here the clock moves WHILE the operation runs (inside the compute function, as a slow function on a real
// clock would make it): the classification must still follow what the operation found, not a later reading of the clock.

type ccStep struct {
	Op     string `json:"op"`     // compute computeifpresent computeifabsent get
	Cop    int    `json:"cop"`    // 0 write 1 cancel 2 invalidate
	Before int64  `json:"before"` // clock advance before the call
	During int64  `json:"during"` // clock advance inside the callback
}

type ccCase struct {
	TTL   int64    `json:"ttl"`
	Steps []ccStep `json:"steps"`
}

func genCC(t *rapid.T) ccCase {
	c := ccCase{TTL: pick(t, "ttl", int64(5), 100, 1<<31)}
	c.Steps = rapid.SliceOfN(rapid.Custom(func(t *rapid.T) ccStep {
		return ccStep{
			Op:     pick(t, "op", "compute", "compute", "computeifpresent", "computeifabsent", "get"),
			Cop:    rapid.IntRange(0, 2).Draw(t, "cop"),
			Before: pick(t, "before", int64(0), 1, c.TTL-2, c.TTL-1, c.TTL, c.TTL+1),
			During: pick(t, "during", int64(0), 1, 2, c.TTL, 3*c.TTL),
		}
	}), 1, 30).Draw(t, "steps")
	return c
}

func runCC(c ccCase) outcome {
	var o outcome
	clock := &massClock{now: 1_000_000}
	rec := stats.NewCounter()
	cache := otter.Must(&otter.Options[int, int]{
		Clock:            clock,
		Executor:         func(fn func()) { fn() },
		ExpiryCalculator: otter.ExpiryWriting[int, int](time.Duration(c.TTL)),
		StatsRecorder:    rec,
		Logger:           &vh.RecLogger{},
	})
	defer cache.StopAllGoroutines()
	snap := func() (uint64, uint64) {
		s := cache.Stats()
		return s.Hits, s.Misses
	}
	const k = 1
	deadline := int64(-1) // model: deadline of key k, -1 = absent
	val := 0
	crossed := 0
	for i, st := range c.Steps {
		clock.set(clock.NowNano() + max(0, st.Before))
		t0 := clock.NowNano()
		live := deadline >= 0 && t0 < deadline
		h0, m0 := snap()
		val++
		called, toldFound := false, false
		op := []otter.ComputeOp{otter.WriteOp, otter.CancelOp, otter.InvalidateOp}[st.Cop]
		during := func() {
			called = true
			clock.set(clock.NowNano() + max(0, st.During))
		}
		wantLookup := true
		switch st.Op {
		case "compute":
			cache.Compute(k, func(old int, found bool) (int, otter.ComputeOp) {
				during()
				toldFound = found
				return val, op
			})
		case "computeifpresent":
			cache.ComputeIfPresent(k, func(old int) (int, otter.ComputeOp) {
				during()
				toldFound = true
				return val, op
			})
			if !called {
				toldFound = false
			}
		case "computeifabsent":
			cache.ComputeIfAbsent(k, func() (int, bool) {
				during()
				return val, st.Cop == 1
			})
			toldFound = !called
			if st.Cop == 2 {
				op = otter.WriteOp
			}
		default:
			cache.GetIfPresent(k)
			toldFound = live
			op = otter.CancelOp
		}
		if toldFound != live {
			o.Err = fmt.Errorf("step %d (%s): the operation began at clock %d, the entry's deadline is %d (live=%v), but the callback was told / called as if found=%v", i, st.Op, t0, deadline, live, toldFound)
			return o
		}
		h1, m1 := snap()
		if wantLookup {
			wh, wm := h0, m0
			if live {
				wh++
			} else {
				wm++
			}
			if h1 != wh || m1 != wm {
				if live && called && st.During > 0 && t0+st.During >= deadline {
					o.Err = fmt.Errorf("step %d (%s): the operation began at clock %d and found the entry unexpired (deadline %d; its function was told so), the clock moved by %d while the function ran, and the lookup was recorded as hits +%d, misses +%d instead of one hit", i, st.Op, t0, deadline, st.During, h1-h0, m1-m0)
				} else {
					o.Err = fmt.Errorf("step %d (%s) at clock %d (deadline %d, live=%v): recorded hits +%d, misses +%d", i, st.Op, t0, deadline, live, h1-h0, m1-m0)
				}
				return o
			}
		}
		if live && called && st.During > 0 && t0+st.During >= deadline {
			crossed++
		}
		// model: a write installs a deadline from the operation's time, an invalidation removes, anything else leaves
		wrote := false
		switch st.Op {
		case "compute":
			wrote = op == otter.WriteOp
		case "computeifpresent":
			wrote = called && op == otter.WriteOp
		case "computeifabsent":
			wrote = called && st.Cop != 1
		}
		switch {
		case wrote:
			deadline = t0 + c.TTL
		case called && op == otter.InvalidateOp && st.Op != "computeifabsent":
			deadline = -1
		case !live:
			if called && st.Op != "get" {
				deadline = -1 // a cancelled computation over an expired entry may clear it away; either way it is not visible
			}
		}
	}
	o.NonTrivial = crossed > 0
	if crossed > 0 {
		o.Classes = append(o.Classes, "deadline-passed-while-the-function-ran")
	}
	o.Sig = vh.Sig(fmt.Sprint(c))
	return o
}

func TestC20_ComputeClock(t *testing.T) {
	propMain(t, propSpec[ccCase]{
		Prop: "C20", Test: "ComputeClock",
		Rule: "one key under ExpiryWriting (ttl 5 ns .. 2 s), a manual clock, stats.Counter: 1-30 Compute / ComputeIfPresent / ComputeIfAbsent / GetIfPresent calls placed just before, at and after the deadline, whose functions move the clock while they run (0 .. 3 ttl); " +
			"oracle: the function is told found exactly when the entry was unexpired at the clock value the call began with, and the lookup is recorded as one hit exactly then, else one miss; non-trivial = the deadline passed while a function that had been told 'found' was running",
		Gen: genCC, Run: runCC,
	})
}
