package props

import (
	"context"
	"errors"
	"fmt"
	"sort"
	"sync"
	"testing"
	"testing/synctest"
	"time"

	"github.com/maypok86/otter/v2"
	"github.com/maypok86/otter/v2/internal/verifhook"
	"github.com/maypok86/otter/v2/verifharness/vh"
	"pgregory.net/rapid"
)

// S2: every blocking call runs in its own goroutine inside a testing/synctest
// bubble; loaders block on gates owned by the script; after every script action
// synctest.Wait() runs the bubble to the next state in which every goroutine is
// durably blocked, so a case is deterministic at blocking-point granularity.

type s2Action struct {
	Op  string `json:"op"` // get bulkget refresh bulkrefresh release set invalidate advance
	K   int    `json:"k,omitempty"`
	Ks  []int  `json:"ks,omitempty"`
	Idx int    `json:"idx,omitempty"` // which pending loader invocation to release (modulo)
	Out string `json:"out,omitempty"`
	Sel int    `json:"sel,omitempty"`
	// Done: the call is made with a context that is already cancelled (the cache hands the context to the loader and
	// otherwise ignores it: nothing else may change)
	Done bool `json:"ctx_done,omitempty"`
}

type s2Case struct {
	Refresh  bool       `json:"refresh"`
	Expiry   bool       `json:"expiry"`
	Bounded  bool       `json:"bounded"`
	Tracked  bool       `json:"tracked_executor"` // false: Options.Executor nil (default go fn())
	Keys     int        `json:"keys"`
	Actions  []s2Action `json:"actions"`
	WriteMix bool       `json:"-"`
	// InstallGate: every finished load is parked at the load.beforeInstall hook point (after its loader returned, before the
	// installing table computation) until the step has been observed once; then it is let through within the same step.
	InstallGate bool `json:"install_gate,omitempty"`
	// ListenerWaits: same-goroutine executor and an OnDeletion listener that, when it runs on the goroutine that has just
	// finished a load, does not return before the callers that had joined that load have returned (a listener handing its
	// event to a consumer that sits behind such a Get). Waiters are released before the post-load bookkeeping runs, so this
	// never blocks for long - unless the release is made to depend on that bookkeeping.
	ListenerWaits bool `json:"listener_waits,omitempty"`
}

var s2T *testing.T

type s2Inv struct {
	id     int
	kind   string
	keys   []int
	olds   []int
	gate   chan s2Action
	start  int64
	end    int64 // 0 while pending
	out    s2Action
	vals   map[int]int
	val    int
	err    error
	panics bool
}

type s2Call struct {
	id       int
	kind     string
	keys     []int
	start    int64
	done     bool
	end      int64
	val      int
	res      map[int]int
	err      error
	panicked any
	ch1      <-chan otter.RefreshResult[int, int]
	chN      <-chan []otter.RefreshResult[int, int]
	nilChan  bool
	results  []otter.RefreshResult[int, int]
	gotRes   int
	resStamp int64
}

type s2World struct {
	lastInv map[int64]*s2Inv // goroutine id -> the invocation that goroutine finished last
	callOfG map[int64]*s2Call
	mu      sync.Mutex
	stamp   int64
	invs    []*s2Inv
	calls   []*s2Call
	valCtr  int
	writes  map[int][]int64 // stamps of harness writes/invalidations per key
	wrote   map[int]map[int]bool
}

func (w *s2World) tick() int64 { w.stamp++; return w.stamp }

type s2Loader struct{ w *s2World }

func (l s2Loader) invoke(kind string, keys, olds []int) (map[int]int, int, error) {
	w := l.w
	w.mu.Lock()
	inv := &s2Inv{id: len(w.invs), kind: kind, keys: append([]int(nil), keys...), olds: append([]int(nil), olds...), gate: make(chan s2Action), start: w.tick()}
	w.invs = append(w.invs, inv)
	w.mu.Unlock()
	out := <-inv.gate // durably blocked until the script releases this invocation
	w.mu.Lock()
	defer w.mu.Unlock()
	inv.out = out
	inv.end = w.tick()
	if w.lastInv != nil {
		w.lastInv[vh.Goid()] = inv
	}
	sorted := append([]int(nil), keys...)
	sort.Ints(sorted)
	newVal := func() int { w.valCtr++; return w.valCtr }
	switch kind {
	case "load", "reload":
		switch out.Out {
		case "err":
			inv.val, inv.err = newVal(), errLoader2
		case "notfound":
			inv.err = otter.ErrNotFound
		case "panic":
			inv.panics = true
			inv.err = errors.New("panic")
		default:
			inv.val = newVal()
		}
		if inv.panics {
			panic("verif: loader panic")
		}
		return nil, inv.val, inv.err
	}
	inv.vals = map[int]int{}
	switch out.Out {
	case "err":
		inv.err = errLoader2
		return nil, 0, inv.err
	case "panic":
		inv.panics = true
		inv.err = errors.New("panic")
		panic("verif: bulk loader panic")
	case "empty":
	case "partial":
		for _, k := range sorted {
			if (out.Sel>>(k%8))&1 == 1 {
				inv.vals[k] = newVal()
			}
		}
	case "extra":
		for _, k := range sorted {
			inv.vals[k] = newVal()
		}
		// extra results: keys of the key space that were not asked for (they may be cached, absent, or being loaded
		// by somebody else right now), and sometimes a key nobody ever asks for
		for k := 0; k < 4; k++ {
			if _, asked := inv.vals[k]; !asked && (out.Sel>>k)&1 == 1 {
				inv.vals[k] = newVal()
			}
		}
		if out.Sel&128 != 0 || len(inv.vals) == len(sorted) {
			inv.vals[100+out.Sel%3] = newVal()
		}
	default:
		for _, k := range sorted {
			inv.vals[k] = newVal()
		}
	}
	res := map[int]int{}
	for k, v := range inv.vals {
		res[k] = v
	}
	return res, 0, nil
}

var errLoader2 = errors.New("verif: loader failed")

var s2DoneCtx = func() context.Context {
	ctx, cancel := context.WithCancel(context.Background())
	cancel()
	return ctx
}()

func ctxOf(a *s2Action) context.Context {
	if a.Done {
		return s2DoneCtx
	}
	return context.Background()
}

func (l s2Loader) Load(ctx context.Context, k int) (int, error) {
	_, v, err := l.invoke("load", []int{k}, nil)
	return v, err
}
func (l s2Loader) Reload(ctx context.Context, k int, old int) (int, error) {
	_, v, err := l.invoke("reload", []int{k}, []int{old})
	return v, err
}
func (l s2Loader) BulkLoad(ctx context.Context, keys []int) (map[int]int, error) {
	m, _, err := l.invoke("bulkload", keys, nil)
	return m, err
}
func (l s2Loader) BulkReload(ctx context.Context, keys []int, olds []int) (map[int]int, error) {
	m, _, err := l.invoke("bulkreload", keys, olds)
	return m, err
}

func genS2Case(t *rapid.T, withWrites bool) s2Case {
	c := s2Case{
		Refresh: rapid.Bool().Draw(t, "refresh"),
		Expiry:  rapid.IntRange(0, 3).Draw(t, "expiry") == 0,
		Bounded: rapid.IntRange(0, 3).Draw(t, "bounded") == 0,
		Tracked: rapid.Bool().Draw(t, "tracked"),
		Keys:    rapid.IntRange(1, 4).Draw(t, "keys"),
	}
	c.InstallGate = rapid.Bool().Draw(t, "installgate")
	c.ListenerWaits = rapid.IntRange(0, 3).Draw(t, "listenerwaits") == 0
	// computecancel: a Compute whose function cancels. It is not a write, an invalidation or an eviction, so it must
	// neither interrupt single-flight nor change what waiters receive.
	ops := []string{"get", "get", "get", "bulkget", "bulkget", "release", "release", "release", "release", "computecancel"}
	if c.Refresh {
		ops = append(ops, "refresh", "refresh", "bulkrefresh", "advance")
	} else if c.ListenerWaits {
		// entries live 100 ns here: a load over an expired entry reports that entry (cause Expiration) from the loading goroutine
		c.Expiry = true
		ops = append(ops, "advance", "advance")
	}
	if withWrites {
		ops = append(ops, "set", "invalidate")
	}
	singleOuts := []string{"val", "val", "val", "err", "notfound", "panic"}
	bulkOuts := []string{"full", "full", "partial", "extra", "empty", "err", "panic"}
	c.Actions = rapid.SliceOfN(rapid.Custom(func(t *rapid.T) s2Action {
		a := s2Action{Op: ops[rapid.IntRange(0, len(ops)-1).Draw(t, "op")]}
		a.K = rapid.IntRange(0, c.Keys-1).Draw(t, "k")
		switch a.Op {
		case "get", "refresh":
			a.Done = rapid.IntRange(0, 5).Draw(t, "ctxdone") == 0
		case "bulkget", "bulkrefresh":
			a.Done = rapid.IntRange(0, 5).Draw(t, "ctxdone") == 0
			n := rapid.IntRange(1, 4).Draw(t, "n")
			for i := 0; i < n; i++ {
				a.Ks = append(a.Ks, rapid.IntRange(0, c.Keys-1).Draw(t, "bk"))
			}
		case "computecancel":
			a.Sel = rapid.IntRange(0, 2).Draw(t, "variant")
		case "release":
			a.Idx = rapid.IntRange(0, 7).Draw(t, "idx")
			// the outcome is interpreted according to the kind of the released invocation
			a.Out = singleOuts[rapid.IntRange(0, len(singleOuts)-1).Draw(t, "out")] + "/" + bulkOuts[rapid.IntRange(0, len(bulkOuts)-1).Draw(t, "bout")]
			a.Sel = rapid.IntRange(0, 255).Draw(t, "sel")
		}
		return a
	}), 1, 40).Draw(t, "actions")
	return c
}

// runS2 interprets a case inside a synctest bubble. check is called after the
// final quiescence with the world; it returns a violation or nil.
func runS2(c s2Case, prop string, perStep func(w *s2World, cache *otter.Cache[int, int], a *s2Action) error, final func(w *s2World, cache *otter.Cache[int, int]) error) (o outcome, w *s2World) {
	if c.Refresh {
		// with a same-goroutine executor a read of a stale entry runs the reload inside the reading call: the refresh checks
		// of this world assume reloads run on the executor's own goroutines
		c.ListenerWaits = false
	}
	w = &s2World{writes: map[int][]int64{}, wrote: map[int]map[int]bool{}}
	var verr error
	func() {
		defer func() {
			if r := recover(); r != nil {
				verr = fmt.Errorf("bubble did not terminate cleanly: %v", r)
			}
		}()
		synctest.Test(s2T, func(t *testing.T) {
			clock := &vh.ManualClock{}
			clock.Set(1_000_000)
			opts := &otter.Options[int, int]{Clock: clock, Logger: &vh.RecLogger{}}
			if c.Refresh {
				opts.RefreshCalculator = otter.RefreshWriting[int, int](100 * time.Nanosecond)
			}
			if c.Expiry {
				opts.ExpiryCalculator = otter.ExpiryWriting[int, int](time.Hour)
				if c.ListenerWaits {
					opts.ExpiryCalculator = otter.ExpiryWriting[int, int](100 * time.Nanosecond)
				}
			}
			if c.Bounded {
				opts.MaximumSize = 1000
			}
			// automatic removals (expiration sweeps, evictions) count like invalidations: they end a key's in-flight load record
			opts.OnAtomicDeletion = func(e otter.DeletionEvent[int, int]) {
				if e.Cause != otter.CauseExpiration && e.Cause != otter.CauseOverflow {
					return
				}
				w.mu.Lock()
				w.writes[e.Key] = append(w.writes[e.Key], w.tick())
				w.mu.Unlock()
			}
			var execWG sync.WaitGroup
			stepCh := make(chan struct{})
			var stepMu sync.Mutex
			listenersParked := 0
			if c.ListenerWaits {
				w.lastInv = map[int64]*s2Inv{}
				w.callOfG = map[int64]*s2Call{}
				opts.Executor = func(fn func()) { fn() }
				opts.OnDeletion = func(e otter.DeletionEvent[int, int]) {
					g := vh.Goid()
					for {
						w.mu.Lock()
						inv := w.lastInv[g]
						waiting := false
						if inv != nil && inv.end != 0 {
							covers := false
							for _, k := range inv.keys {
								covers = covers || k == e.Key
							}
							for _, cl := range w.calls {
								if !covers || cl.done || cl == w.callOfG[g] || cl.start > inv.end || (cl.kind != "get" && cl.kind != "refresh") || cl.keys[0] != e.Key {
									continue
								}
								// a single-key call on this key that was under way when the invocation ended and did not load itself: a waiter
								own := false
								for _, o := range w.invs {
									own = own || (o != inv && len(o.keys) == 1 && o.keys[0] == e.Key && o.start > cl.start && o.end == 0)
								}
								if !own {
									waiting = true
								}
							}
						}
						w.mu.Unlock()
						if !waiting {
							return
						}
						stepMu.Lock()
						ch := stepCh
						listenersParked++
						stepMu.Unlock()
						<-ch
						stepMu.Lock()
						listenersParked--
						stepMu.Unlock()
					}
				}
			} else if c.Tracked {
				opts.Executor = func(fn func()) {
					execWG.Add(1)
					go func() {
						defer execWG.Done()
						defer func() { _ = recover() }() // a panicking reload must not kill the harness
						fn()
					}()
				}
			}
			cache := otter.Must(opts)
			defer cache.StopAllGoroutines()
			quit := make(chan struct{})
			defer close(quit)
			ld := s2Loader{w}
			// install gate: loads park between their loader's return and the installing computation
			var gateMu sync.Mutex
			var parkedInstalls []chan struct{}
			if c.InstallGate {
				verifhook.Set(func(id string) {
					if id != "load.beforeInstall" {
						return
					}
					ch := make(chan struct{})
					gateMu.Lock()
					parkedInstalls = append(parkedInstalls, ch)
					gateMu.Unlock()
					<-ch
				})
				defer verifhook.Set(nil)
			}
			checked := map[int]bool{}
			// observe: "success => cached and returned" also holds for a caller that joined somebody else's load: once its Get has
			// returned (v, nil), a lookup finds v (unless the key was written / invalidated since the call began, or another
			// invocation for the key finished meanwhile). Judged for C10 only.
			observe := func() error {
				if prop != "C10" {
					return nil
				}
				w.mu.Lock()
				defer w.mu.Unlock()
				for _, cl := range w.calls {
					if cl.kind != "get" || !cl.done || checked[cl.id] {
						continue
					}
					checked[cl.id] = true
					if cl.err != nil || cl.panicked != nil {
						continue
					}
					k := cl.keys[0]
					skip := false
					for _, st := range w.writes[k] {
						if st > cl.start {
							skip = true
						}
					}
					suppliers := 0
					for _, inv := range w.invs {
						covers := false
						for _, ik := range inv.keys {
							covers = covers || ik == k
						}
						if v, ok := inv.vals[k]; ok && v == cl.val || (inv.kind == "load" || inv.kind == "reload") && covers && inv.val == cl.val && inv.err == nil && inv.end != 0 {
							suppliers++
							continue
						}
						if (covers || inv.vals[k] != 0) && inv.end > cl.start {
							skip = true // another invocation for the key finished during or after the call
						}
					}
					if skip || suppliers != 1 {
						continue
					}
					if g, ok := cache.GetEntryQuietly(k); !ok || g.Value != cl.val {
						return fmt.Errorf("Get(%d) (call %d) has returned (%d, nil) - the value an invocation loaded - but a lookup right afterwards gives (%d,%v): the value was handed out before it was cached (no write, invalidation or other load of the key since the call began)", k, cl.id, cl.val, g.Value, ok)
					}
				}
				return nil
			}
			settle := func() error {
				for round := 0; round < 100; round++ {
					synctest.Wait()
					// wake the listeners that are waiting for callers to return, until none is left waiting (a loading goroutine
					// parked in its listener has not finished distributing its results: the step is not settled yet)
					for lr := 0; c.ListenerWaits && lr < 20; lr++ {
						stepMu.Lock()
						n := listenersParked
						close(stepCh)
						stepCh = make(chan struct{})
						stepMu.Unlock()
						synctest.Wait()
						if n == 0 {
							break
						}
					}
					if err := observe(); err != nil {
						return err
					}
					gateMu.Lock()
					parked := parkedInstalls
					parkedInstalls = nil
					gateMu.Unlock()
					if len(parked) == 0 {
						return nil
					}
					for _, ch := range parked {
						close(ch)
					}
				}
				return nil
			}
			start := func(kind string, keys []int, f func(cl *s2Call)) {
				w.mu.Lock()
				cl := &s2Call{id: len(w.calls), kind: kind, keys: append([]int(nil), keys...), start: w.tick()}
				w.calls = append(w.calls, cl)
				w.mu.Unlock()
				go func() {
					if w.callOfG != nil {
						w.mu.Lock()
						w.callOfG[vh.Goid()] = cl
						w.mu.Unlock()
					}
					defer func() {
						r := recover()
						w.mu.Lock()
						cl.panicked = r
						cl.done = true
						cl.end = w.tick()
						w.mu.Unlock()
					}()
					f(cl)
				}()
			}
			for i := range c.Actions {
				a := &c.Actions[i]
				switch a.Op {
				case "get":
					start("get", []int{a.K}, func(cl *s2Call) { cl.val, cl.err = cache.Get(ctxOf(a), a.K, ld) })
				case "bulkget":
					start("bulkget", a.Ks, func(cl *s2Call) { cl.res, cl.err = cache.BulkGet(ctxOf(a), a.Ks, ld) })
				case "refresh":
					start("refresh", []int{a.K}, func(cl *s2Call) {
						ch := cache.Refresh(ctxOf(a), a.K, ld)
						cl.ch1, cl.nilChan = ch, ch == nil
						if ch != nil {
							// the result (if any: a panicking reload never delivers one) is collected on the side
							go func() {
								select {
								case r := <-ch:
									w.mu.Lock()
									cl.results = append(cl.results, r)
									cl.gotRes++
									cl.resStamp = w.tick()
									w.mu.Unlock()
								case <-quit:
								}
							}()
						}
					})
				case "bulkrefresh":
					start("bulkrefresh", a.Ks, func(cl *s2Call) {
						ch := cache.BulkRefresh(ctxOf(a), a.Ks, ld)
						cl.chN, cl.nilChan = ch, ch == nil
						if ch != nil {
							go func() {
								select {
								case r := <-ch:
									w.mu.Lock()
									cl.results = r
									cl.gotRes++
									cl.resStamp = w.tick()
									w.mu.Unlock()
								case <-quit:
								}
							}()
						}
					})
				case "release":
					w.mu.Lock()
					var pend []*s2Inv
					for _, inv := range w.invs {
						if inv.end == 0 && inv.out.Op == "" {
							pend = append(pend, inv)
						}
					}
					w.mu.Unlock()
					if len(pend) > 0 {
						inv := pend[a.Idx%len(pend)]
						rel := *a
						rel.Op = "released"
						single, bulk := a.Out, a.Out
						for j := 0; j < len(a.Out); j++ {
							if a.Out[j] == '/' {
								single, bulk = a.Out[:j], a.Out[j+1:]
							}
						}
						if inv.kind == "load" || inv.kind == "reload" {
							rel.Out = single
						} else {
							rel.Out = bulk
						}
						// reload panics on the default executor would kill the process (outside every listed property)
						if rel.Out == "panic" && (inv.kind == "reload" || inv.kind == "bulkreload" || s2OnExecutor(w, inv)) && (!c.Tracked || c.ListenerWaits) {
							rel.Out = "err"
						}
						inv.out.Op = "releasing"
						inv.gate <- rel
					}
				case "set":
					w.mu.Lock()
					w.valCtr++
					v := w.valCtr
					w.writes[a.K] = append(w.writes[a.K], w.tick())
					if w.wrote[a.K] == nil {
						w.wrote[a.K] = map[int]bool{}
					}
					w.wrote[a.K][v] = true
					w.mu.Unlock()
					cache.Set(a.K, v)
				case "invalidate":
					w.mu.Lock()
					w.writes[a.K] = append(w.writes[a.K], w.tick())
					w.mu.Unlock()
					cache.Invalidate(a.K)
				case "advance":
					clock.Advance(150)
				case "computecancel":
					switch a.Sel % 3 {
					case 0:
						cache.Compute(a.K, func(old int, found bool) (int, otter.ComputeOp) { return 0, otter.CancelOp })
					case 1:
						cache.ComputeIfAbsent(a.K, func() (int, bool) { return 0, true })
					default:
						cache.ComputeIfPresent(a.K, func(old int) (int, otter.ComputeOp) { return 0, otter.CancelOp })
					}
				}
				if err := settle(); err != nil && verr == nil {
					verr = err
				}
				if perStep != nil && verr == nil {
					verr = perStep(w, cache, a)
				}
			}
			// release everything that is still pending, successfully, until nothing new appears
			for round := 0; round < 50; round++ {
				w.mu.Lock()
				var pend []*s2Inv
				for _, inv := range w.invs {
					if inv.end == 0 && inv.out.Op == "" {
						pend = append(pend, inv)
					}
				}
				w.mu.Unlock()
				if len(pend) == 0 {
					break
				}
				for _, inv := range pend {
					inv.out.Op = "releasing"
					out := "val"
					if inv.kind == "bulkload" || inv.kind == "bulkreload" {
						out = "full"
					}
					inv.gate <- s2Action{Op: "released", Out: out}
					if err := settle(); err != nil && verr == nil {
						verr = err
					}
				}
			}
			if err := settle(); err != nil && verr == nil {
				verr = err
			}
			execWG.Wait()
			if err := settle(); err != nil && verr == nil {
				verr = err
			}
			if verr == nil && final != nil {
				verr = final(w, cache)
			}
		})
	}()
	o.Err = verr
	return o, w
}

// s2OnExecutor reports whether the invocation was started by a refresh call (which runs on the executor).
func s2OnExecutor(w *s2World, inv *s2Inv) bool {
	// Load invoked by Refresh/BulkRefresh of an absent key runs on the executor as well.
	for _, cl := range w.calls {
		if (cl.kind == "refresh" || cl.kind == "bulkrefresh") && cl.gotRes == 0 && cl.start < inv.start {
			for _, k := range cl.keys {
				for _, ik := range inv.keys {
					if k == ik {
						return true
					}
				}
			}
		}
	}
	return false
}

func c08Final(w *s2World, cache *otter.Cache[int, int]) error {
	w.mu.Lock()
	defer w.mu.Unlock()
	// (ii) every call terminated
	for _, cl := range w.calls {
		if !cl.done {
			return fmt.Errorf("call #%d %s(%v) never returned although every loader was released", cl.id, cl.kind, cl.keys)
		}
	}
	// (i) loader invocations for one key never overlap unless the key was written/invalidated in between
	for i, a := range w.invs {
		for _, b := range w.invs[i+1:] {
			if b.start > a.end && a.end != 0 {
				continue // disjoint
			}
			for _, ka := range a.keys {
				for _, kb := range b.keys {
					if ka != kb {
						continue
					}
					ok := false
					for _, ws := range w.writes[ka] {
						if ws > a.start && ws < b.start {
							ok = true
						}
					}
					if !ok {
						return fmt.Errorf("loader invocations overlap for key %d: %s%v started at %d and was still running when %s%v started at %d, and the key was not written in between", ka, a.kind, a.keys, a.start, b.kind, b.keys, b.start)
					}
				}
			}
		}
	}
	// (iii) what every caller received is the outcome of an invocation that overlapped it (or a cached value)
	supplied := map[int]map[int]bool{} // key -> values supplied by loaders
	for _, inv := range w.invs {
		for _, k := range inv.keys {
			if supplied[k] == nil {
				supplied[k] = map[int]bool{}
			}
			if inv.vals == nil && (inv.err == nil || inv.val != 0) {
				supplied[k][inv.val] = true
			}
		}
		for k, v := range inv.vals { // includes extra results
			if supplied[k] == nil {
				supplied[k] = map[int]bool{}
			}
			supplied[k][v] = true
		}
	}
	overlapping := func(cl *s2Call, k int) []*s2Inv {
		var out []*s2Inv
		for _, inv := range w.invs {
			if inv.start > cl.end || (inv.end != 0 && inv.end < cl.start) {
				continue
			}
			for _, ik := range inv.keys {
				if ik == k {
					out = append(out, inv)
				}
			}
		}
		return out
	}
	for _, cl := range w.calls {
		switch cl.kind {
		case "get":
			k := cl.keys[0]
			ovs := overlapping(cl, k)
			if cl.panicked != nil {
				ok := false
				for _, inv := range ovs {
					if inv.panics {
						ok = true
					}
				}
				if !ok {
					return fmt.Errorf("Get(%d) panicked (%v) although no loader invocation for that key panicked", k, firstLineOf(cl.panicked))
				}
				continue
			}
			if cl.err != nil {
				ok := false
				for _, inv := range ovs {
					if inv.err != nil {
						ok = true
					}
					if _, has := inv.vals[k]; inv.vals != nil && !has && errors.Is(cl.err, otter.ErrNotFound) {
						ok = true // the bulk loader did not supply this key: not found
					}
				}
				if !ok {
					desc := ""
					for _, inv := range w.invs {
						desc += fmt.Sprintf(" %s%v[%d,%d]err=%v vals=%v;", inv.kind, inv.keys, inv.start, inv.end, inv.err, inv.vals)
					}
					return fmt.Errorf("Get(%d) (call [%d,%d]) returned error %v although no overlapping loader invocation failed; invocations:%s", k, cl.start, cl.end, cl.err, desc)
				}
				continue
			}
			if !supplied[k][cl.val] && !w.wrote[k][cl.val] {
				return fmt.Errorf("Get(%d) returned %d, which no loader invocation supplied for that key and nobody wrote", k, cl.val)
			}
		case "bulkget":
			if cl.panicked != nil {
				ok := false
				for _, k := range cl.keys {
					for _, inv := range overlapping(cl, k) {
						if inv.panics {
							ok = true
						}
					}
				}
				if !ok {
					return fmt.Errorf("BulkGet(%v) panicked (%v) although no overlapping loader invocation for its keys panicked", cl.keys, firstLineOf(cl.panicked))
				}
				continue
			}
			if cl.err != nil {
				// an error is reported only when an invocation this call ran or joined failed; "not found" is not a failure
				// of a bulk lookup: such keys are simply absent from the result
				if errors.Is(cl.err, otter.ErrNotFound) {
					return fmt.Errorf("BulkGet(%v) returned the error %q: keys that are not found must be left out of the result, not reported as a failure", cl.keys, cl.err)
				}
				ok := false
				for _, k := range cl.keys {
					for _, inv := range overlapping(cl, k) {
						if inv.err != nil && !errors.Is(inv.err, otter.ErrNotFound) {
							ok = true
						}
					}
				}
				if !ok {
					return fmt.Errorf("BulkGet(%v) returned error %v although no overlapping loader invocation for its keys failed", cl.keys, cl.err)
				}
			}
			asked := map[int]bool{}
			for _, k := range cl.keys {
				asked[k] = true
			}
			for k := range cl.res {
				if !asked[k] {
					return fmt.Errorf("BulkGet(%v) returned key %d, which was not asked for", cl.keys, k)
				}
			}
			for k, v := range cl.res {
				if !supplied[k][v] && !w.wrote[k][v] {
					return fmt.Errorf("BulkGet(%v) returned %d for key %d, which no loader invocation supplied for that key and nobody wrote", cl.keys, v, k)
				}
			}
		case "refresh":
			if cl.panicked != nil {
				return fmt.Errorf("Refresh(%d) panicked: %v", cl.keys[0], firstLineOf(cl.panicked))
			}
			k := cl.keys[0]
			for _, r := range cl.results {
				if r.Key != k {
					return fmt.Errorf("Refresh(%d) delivered a result for key %d", k, r.Key)
				}
				if r.Err == nil && !supplied[k][r.Value] {
					return fmt.Errorf("Refresh(%d) delivered value %d with a nil error, but no loader invocation supplied that value for the key (a waiter must receive the result of the load it joined)", k, r.Value)
				}
			}
			if cl.gotRes > 1 {
				return fmt.Errorf("Refresh(%d) delivered %d results", k, cl.gotRes)
			}
			if !cl.nilChan && cl.gotRes == 0 {
				panicked := false
				for _, inv := range w.invs { // the reload runs on the executor, after Refresh itself has returned
					for _, ik := range inv.keys {
						if ik == k && inv.panics && inv.end > cl.start {
							panicked = true
						}
					}
				}
				if !panicked {
					return fmt.Errorf("Refresh(%d) returned a channel but never delivered a result on it although every loader invocation finished and none panicked", k)
				}
			}
			for _, r := range cl.results {
				if r.Err != nil {
					continue
				}
				ok := false
				for _, inv := range w.invs {
					if inv.end == 0 || inv.end > cl.resStamp {
						continue
					}
					if inv.vals != nil {
						if v, has := inv.vals[k]; has && v == r.Value {
							ok = true
						}
					} else if inv.err == nil && inv.val == r.Value && len(inv.keys) == 1 && inv.keys[0] == k {
						ok = true
					}
				}
				if !ok {
					return fmt.Errorf("Refresh(%d) delivered value %d before any loader invocation that supplies it had returned", k, r.Value)
				}
			}
		}
	}
	// (iv) no in-flight record is left behind
	if n := cache.VerifInFlightCalls(); n != 0 {
		return fmt.Errorf("after every call returned the in-flight call table still holds %d record(s)", n)
	}
	return nil
}

func firstLineOf(v any) string {
	s := fmt.Sprint(v)
	for i := 0; i < len(s); i++ {
		if s[i] == '\n' {
			return s[:i]
		}
	}
	return s
}

func c08Classes(c s2Case, w *s2World) (nontrivial bool, classes []string) {
	// non-trivial: >= 2 calls overlapping on one key with >= 1 joiner (fewer invocations than calls), or a bulk call sharing a key
	joiner, bulkShare := false, false
	for i, a := range w.calls {
		for _, b := range w.calls[i+1:] {
			if b.start > a.end {
				continue
			}
			for _, ka := range a.keys {
				for _, kb := range b.keys {
					if ka == kb {
						joiner = true
						if a.kind == "bulkget" || b.kind == "bulkget" || a.kind == "bulkrefresh" || b.kind == "bulkrefresh" {
							bulkShare = true
						}
					}
				}
			}
		}
	}
	outs := map[string]bool{}
	for _, inv := range w.invs {
		outs[inv.kind+":"+inv.out.Out] = true
	}
	for k := range outs {
		classes = append(classes, "outcome:"+k)
	}
	if joiner {
		classes = append(classes, "overlapping-calls-on-one-key")
	}
	if bulkShare {
		classes = append(classes, "bulk-shares-key")
	}
	if c.Tracked {
		classes = append(classes, "tracked-executor")
	} else {
		classes = append(classes, "default-executor")
	}
	return joiner, classes
}

func TestC08_SingleFlight(t *testing.T) {
	s2T = t
	propMain(t, propSpec[s2Case]{
		Prop: "C08", Test: "SingleFlight",
		Rule: "scripts of 1-40 actions run inside a testing/synctest bubble: start Get/BulkGet/Refresh/BulkRefresh calls over 1-4 keys (each in its own goroutine), release a blocked loader invocation with a generated outcome (value, error, ErrNotFound, panic; bulk: full, partial, extra, empty, error, panic), advance the clock past the refresh time; " +
			"synctest.Wait() after every action makes the case deterministic at blocking-point granularity; default executor (go fn()) or a harness-owned goroutine executor; oracle: loader invocations for one key never overlap in time (none are written in between in this test), after all gates are released every call has returned, " +
			"errors/panics reach only callers that overlapped a failing invocation, the in-flight table is empty afterwards and a later Get loads afresh; non-trivial = >= 2 calls overlapping on one key",
		Assumptions: []string{"determinism is at the granularity of durable blocking points (channel operations, WaitGroup waits); preemption inside non-blocking code is not explored here",
			"a panicking reload on the default executor would crash the process and is outside the property's quantifier: such outcomes are generated only for the harness-owned executor"},
		Gen: func(t *rapid.T) s2Case { return genS2Case(t, false) },
		Run: func(c s2Case) outcome {
			o, w := runS2(c, "C08", nil, c08Final)
			if o.Err == nil {
				// a later Get must load afresh (no stale in-flight record)
				o2, w2 := runS2(s2Case{Refresh: c.Refresh, Tracked: c.Tracked, Keys: c.Keys, Actions: append(append([]s2Action(nil), c.Actions...), s2Action{Op: "invalidate", K: 0}, s2Action{Op: "get", K: 0})}, "C08",
					nil, func(w *s2World, cache *otter.Cache[int, int]) error {
						last := w.calls[len(w.calls)-1]
						found := false
						for _, inv := range w.invs {
							if inv.start > last.start && inv.keys[0] == 0 && inv.kind == "load" {
								found = true
							}
						}
						if !found {
							return fmt.Errorf("a Get(0) issued after everything finished (key invalidated first) did not invoke the loader: a stale in-flight record is answering (returned %d, %v)", last.val, last.err)
						}
						return nil
					})
				_ = w2
				if o2.Err != nil {
					o.Err = o2.Err
				}
			}
			o.NonTrivial, o.Classes = c08Classes(c, w)
			o.Sig = vh.Sig(fmt.Sprint(c))
			return o
		},
	})
}

// C11 on S2: while a reload is in flight (its loader blocked on a gate), readers keep getting the old value without
// blocking, fresh entries trigger nothing, and a due read hands exactly one reload to the executor.
func TestC11_S2InFlight(t *testing.T) {
	s2T = t
	propMain(t, propSpec[s2Case]{
		Prop: "C11", Test: "S2InFlight",
		Rule: "scripts in a testing/synctest bubble on refresh-enabled caches (RefreshWriting 100 ns, clock advanced by 150 ns actions, default or harness-owned goroutine executor): Get/BulkGet/Refresh/BulkRefresh calls, explicit Set/Invalidate, loader gates released with generated outcomes; " +
			"oracle after every action: a Get of a key that is present returns at once (it is never blocked behind a reload) with the value cached at that moment, also while a reload of that key is blocked in its loader; a reload is invoked with the old value the key held; at most one reload per key is in flight; " +
			"non-trivial = a Get hit on a key whose reload was in flight",
		Assumptions: []string{"determinism at blocking-point granularity (synctest)"},
		Gen: func(t *rapid.T) s2Case {
			c := genS2Case(t, true)
			c.Refresh = true
			return c
		},
		Run: func(c s2Case) outcome {
			hitsDuringReload := 0
			checked := map[int]bool{}
			o, w := runS2(c, "C11", func(w *s2World, cache *otter.Cache[int, int], a *s2Action) error {
				w.mu.Lock()
				defer w.mu.Unlock()
				// reloads must carry the old value and not overlap per key
				inflight := map[int]int{}
				lastStart := map[int]int64{}
				for _, inv := range w.invs {
					if inv.end != 0 {
						continue
					}
					for _, k := range inv.keys {
						inflight[k]++
						if prev, ok := lastStart[k]; ok {
							// a second invocation while the first is still running is legal only if the key was written in between
							// (a call registers before its loader starts, so a write that precedes both loader entries can still
							// lie between the two registrations: only keys that were never written are judged here; the strict
							// overlap rule is C08's)
							if len(w.writes[k]) == 0 {
								return fmt.Errorf("two loader invocations for key %d are in flight at once (started at %d and %d) and the key was never written", k, prev, inv.start)
							}
						}
						lastStart[k] = inv.start
					}
				}
				if a.Op != "get" {
					return nil
				}
				cl := w.calls[len(w.calls)-1]
				if checked[cl.id] || cl.kind != "get" {
					return nil
				}
				checked[cl.id] = true
				e, present := cache.GetEntryQuietly(a.K)
				if !present {
					return nil // a miss: the call loads or joins
				}
				if !cl.done {
					// it can only be blocked if it missed before the value appeared in this very step; with one action per
					// step nothing else can have installed the value meanwhile
					return fmt.Errorf("Get(%d) is blocked although the key is present (value %d)", a.K, e.Value)
				}
				if cl.panicked != nil || cl.err != nil || cl.val != e.Value {
					return fmt.Errorf("Get(%d) on a present key returned (%d,%v), the cache holds %d", a.K, cl.val, cl.err, e.Value)
				}
				if inflight[a.K] > 0 {
					hitsDuringReload++
				}
				return nil
			}, func(w *s2World, cache *otter.Cache[int, int]) error {
				for _, inv := range w.invs {
					if inv.kind == "reload" || inv.kind == "bulkreload" {
						for i, k := range inv.keys {
							if i < len(inv.olds) && !w.wrote[k][inv.olds[i]] {
								ok := false
								for _, other := range w.invs {
									if other.vals != nil {
										if v, has := other.vals[k]; has && v == inv.olds[i] {
											ok = true
										}
									} else if other.val == inv.olds[i] {
										ok = true
									}
								}
								if !ok {
									return fmt.Errorf("%s of key %d was given old value %d, which the key never held", inv.kind, k, inv.olds[i])
								}
							}
						}
					}
				}
				return nil
			})
			o.NonTrivial = hitsDuringReload > 0
			if hitsDuringReload > 0 {
				o.Classes = append(o.Classes, "hit-while-reload-in-flight")
			}
			_ = w
			o.Sig = vh.Sig(fmt.Sprint(c))
			return o
		},
	})
}

// The result clauses of C10 (what Get/BulkGet hand to callers that joined somebody else's load) and of C11 (what an
// explicit Refresh delivers on its channel, and when) are judged on the same deterministic world as C08.
func s2ResultProp(t *testing.T, prop, test, rule string, gen func(t *rapid.T) s2Case, nontrivial func(c s2Case, w *s2World) bool) {
	s2T = t
	propMain(t, propSpec[s2Case]{
		Prop: prop, Test: test, Rule: rule,
		Assumptions: []string{"determinism is at the granularity of durable blocking points (testing/synctest)",
			"a panicking reload on the default executor would crash the process: such outcomes are generated only for the harness-owned executor"},
		Gen: gen,
		Run: func(c s2Case) outcome {
			o, w := runS2(c, prop, nil, c08Final)
			_, o.Classes = c08Classes(c, w)
			o.NonTrivial = nontrivial(c, w)
			o.Sig = vh.Sig(fmt.Sprint(c))
			return o
		},
	})
}

func TestC10_S2Waiters(t *testing.T) {
	s2ResultProp(t, "C10", "S2Waiters",
		"scripts of 1-40 actions in a testing/synctest bubble: Get/BulkGet (and Refresh/BulkRefresh) calls over 1-4 keys each in its own goroutine, loader invocations blocked on gates and released with generated outcomes (value, error, ErrNotFound, panic; bulk: full, partial, extra keys inside and outside the key space, empty, error, panic); "+
			"oracle once everything returned: a Get returns a value some invocation supplied for that key (never a zero value), an error only if an invocation it ran or joined failed, ErrNotFound only if one reported the key missing; a BulkGet returns only keys it was asked for with supplied values, leaves not-found keys out instead of failing, "+
			"and fails only if an invocation it ran or joined failed with a real error; a panic reaches only callers that overlapped a panicking invocation; non-trivial = a BulkGet or Get overlapped another call on the same key",
		func(t *rapid.T) s2Case { return genS2Case(t, false) },
		func(c s2Case, w *s2World) bool { nt, _ := c08Classes(c, w); return nt })
}

func TestC11_S2RefreshResults(t *testing.T) {
	s2ResultProp(t, "C11", "S2RefreshResults",
		"scripts of 1-40 actions in a testing/synctest bubble on refresh-enabled caches: Refresh/BulkRefresh/Get/BulkGet calls over 1-4 keys, loader invocations blocked on gates and released with generated outcomes, clock advanced past the refresh time; "+
			"oracle once everything returned: every Refresh call that got a channel receives exactly one result on it (none only if its reload panicked), for its own key, and a nil-error result carries a value that a loader invocation for that key had already returned when the result was delivered "+
			"(a Refresh that joins a load or reload in flight waits for it); non-trivial = a Refresh overlapped another call on the same key",
		func(t *rapid.T) s2Case {
			c := genS2Case(t, false)
			c.Refresh = true
			return c
		},
		func(c s2Case, w *s2World) bool {
			for i, a := range w.calls {
				for _, b := range w.calls[i+1:] {
					if a.kind != "refresh" && b.kind != "refresh" {
						continue
					}
					for _, ka := range a.keys {
						for _, kb := range b.keys {
							if ka == kb {
								return true
							}
						}
					}
				}
			}
			return false
		})
}
