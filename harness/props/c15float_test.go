package props

import (
	"fmt"
	"math"
	"testing"
	"unsafe"

	"github.com/maypok86/otter/v2/internal/hashmap"
	"github.com/maypok86/otter/v2/verifharness/vh"
	"pgregory.net/rapid"
)

// C15 over a key type whose equality is not bit equality: float64 keys with +0 and -0 (equal, different bits). The table
// must treat equal keys as one key whatever their representation - a hasher that looks at the raw bits puts them into
// different buckets. (NaN keys are never equal to anything, a Go map cannot find them either; they are not generated.)

type fnode struct {
	k float64
	v int
}

func (n *fnode) Key() float64              { return n.k }
func (n *fnode) Value() int                { return n.v }
func (n *fnode) AsPointer() unsafe.Pointer { return unsafe.Pointer(n) }

type fmgr struct{}

func (fmgr) FromPointer(p unsafe.Pointer) *fnode { return (*fnode)(p) }
func (fmgr) IsNil(n *fnode) bool                 { return n == nil }

type fkOp struct {
	Kind string `json:"kind"` // put del get range
	Key  int    `json:"key"`  // index into the key table
}

type fkCase struct {
	Ops []fkOp `json:"ops"`
}

var fkKeys = []float64{0, math.Copysign(0, -1), 1, -1, 0.5, 1e300, math.SmallestNonzeroFloat64, math.Inf(1), math.Inf(-1), 2, 3, 4}

func genFK(t *rapid.T) fkCase {
	return fkCase{Ops: rapid.SliceOfN(rapid.Custom(func(t *rapid.T) fkOp {
		k := rapid.IntRange(0, len(fkKeys)-1).Draw(t, "key")
		if rapid.Bool().Draw(t, "zero") {
			k = rapid.IntRange(0, 1).Draw(t, "sign") // +0 or -0
		}
		return fkOp{Kind: pick(t, "kind", "put", "put", "del", "get", "get", "range"), Key: k}
	}), 1, 60).Draw(t, "ops")}
}

func runFK(c fkCase) outcome {
	var o outcome
	m := hashmap.New[float64, int, *fnode](fmgr{})
	model := map[float64]int{}
	ver := 0
	zeros := 0
	for i, op := range c.Ops {
		key := fkKeys[op.Key]
		if op.Key <= 1 {
			zeros++
		}
		switch op.Kind {
		case "put":
			ver++
			old, had := model[key]
			calls := 0
			m.Compute(key, func(n *fnode) *fnode {
				calls++
				if had != (n != nil) || (n != nil && n.v != old) {
					calls += 100
				}
				return &fnode{key, ver}
			})
			if calls != 1 {
				o.Err = fmt.Errorf("op %d: Compute(put %v [bits %#x]): callback code %d (1 = once, with the node of the equal key that was stored before)", i, key, math.Float64bits(key), calls)
				return o
			}
			model[key] = ver
		case "del":
			m.Compute(key, func(n *fnode) *fnode { return nil })
			delete(model, key)
		case "get":
			got := m.Get(key)
			want, had := model[key]
			if (got != nil) != had || (got != nil && got.v != want) {
				o.Err = fmt.Errorf("op %d: Get(%v [bits %#x]) = %v, a map holds (%d,%v) for the equal key", i, key, math.Float64bits(key), got, want, had)
				return o
			}
		case "range":
			n := 0
			m.Range(func(x *fnode) bool { n++; return true })
			if n != len(model) {
				o.Err = fmt.Errorf("op %d: Range yielded %d nodes, a map holds %d keys", i, n, len(model))
				return o
			}
		}
		if sz := m.Size(); sz != len(model) {
			o.Err = fmt.Errorf("op %d: Size()=%d after %s(%v [bits %#x]), a map holds %d keys", i, sz, op.Kind, key, math.Float64bits(key), len(model))
			return o
		}
	}
	o.NonTrivial = zeros >= 2
	o.Sig = vh.Sig(fmt.Sprint(c))
	return o
}

func TestC15_FloatKeys(t *testing.T) {
	propMain(t, propSpec[fkCase]{
		Prop: "C15", Test: "FloatKeys",
		Rule: "single-goroutine sequences (1-60 ops) of Compute(insert/update/delete), Get, Range and Size on internal/hashmap.Map with float64 keys drawn from a small table that holds +0 and -0 (equal keys with different bits), infinities and extreme magnitudes, against a Go map; non-trivial = both signs of zero or one of them twice were used",
		Gen:  genFK, Run: runFK,
	})
}
