package props

import (
	"testing"

	"github.com/maypok86/otter/v2/verifharness/vh"
)

// Mid-scale variants of the S1 checks: 16-160 keys with a skewed popularity, maxima 9-150 entries (x1-4 for weighted
// caches) and scripts of 60-600 actions. With the maxima of the base profiles (1-8, or 1000 over at most 10 keys) the
// admission window holds one entry, the hill climber's step rounds to nothing and the sketch never ages; here the
// window/probation/protected queues, the climber (window growth and shrinkage, protected demotions), the sketch's
// periodic halving and table growth inside the cache all take part, and the same oracles judge the outcome.
func midSpec(base s1Spec, test string, needBound bool) s1Spec {
	p := *base.Profile
	p.MidScale = true
	p.MaxKeys = 160
	p.MinLen = 60
	p.MaxLen = 600
	p.NeedBound = needBound || p.NeedBound
	ops := map[string]int{}
	for k, v := range p.Ops {
		ops[k] = v
	}
	// reads drive the frequency sketch and the queues: make them common
	ops["getifpresent"] += 16
	ops["getentry"] += 4
	p.Ops = ops
	base.Profile = &p
	base.Test = test
	base.Rule = "mid-scale variant (16-160 keys with skewed popularity, maxima 9-150 entries, 60-600 actions per script, so that window, probation and protected queues, hill climber and sketch aging are exercised): " + base.Rule
	cls := base.Classes
	base.Classes = func(r *vh.Runner) []string {
		var c []string
		if cls != nil {
			c = cls(r)
		}
		switch {
		case r.St.AutoOverflow >= 50:
			c = append(c, "evictions>=50")
		case r.St.AutoOverflow >= 5:
			c = append(c, "evictions>=5")
		}
		return c
	}
	return base
}

func TestC01_S1Mid(t *testing.T) { s1Main(t, midSpec(c01Spec(), "S1Mid", false)) }
func TestC04_S1Mid(t *testing.T) { s1Main(t, midSpec(c04Spec(), "S1Mid", true)) }
func TestC05_S1Mid(t *testing.T) { s1Main(t, midSpec(c05Spec(), "S1Mid", true)) }
func TestC06_S1Mid(t *testing.T) { s1Main(t, midSpec(c06Spec(), "S1Mid", true)) }
func TestC07_S1Mid(t *testing.T) { s1Main(t, midSpec(c07Spec(), "S1Mid", true)) }
func TestC20_S1Mid(t *testing.T) { s1Main(t, midSpec(c20Spec(), "S1Mid", false)) }
