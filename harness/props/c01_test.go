package props

import (
	"testing"

	"github.com/maypok86/otter/v2/verifharness/vh"
)

func c01Spec() s1Spec {
	return s1Spec{
		Prop: "C01", Test: "S1Conformance",
		Rule: "rapid-generated scripts (config x 20-120 actions over 2-8 keys) run on one goroutine with an inline executor and a manual clock; " +
			"every return value (entries with their expiration and refresh times), the whole key space (GetEntryQuietly) and EstimatedSize are compared with a map-with-deadlines model after every action; " +
			"non-trivial = at least one operation on an expired-unswept key, or a reported eviction, or a load; distinct = hash of layout+op-kind sequence+outcome counts",
		Profile: &vh.Profile{Name: "c01", Executors: []int{vh.ExecInline}, MinLen: 1, MaxLen: 120, MaxKeys: 8, Ops: with(vh.BaseOps(), "saveload", 1), ExtremeDur: true, BigWeights: true},
		Facets:  vh.FRet | vh.FContents | vh.FIter | vh.FVis | vh.FPanic | vh.FLoad | vh.FDeadline,
		NonTrivial: func(r *vh.Runner) bool {
			return r.St.OpsOnExpired > 0 || r.St.AutoOverflow+r.St.AutoExpiration > 0 || r.St.Loads > 0
		},
		Classes: func(r *vh.Runner) []string {
			var c []string
			if r.St.OpsOnExpired > 0 {
				c = append(c, "op-on-expired-unswept")
			}
			if r.St.AutoOverflow > 0 {
				c = append(c, "overflow-eviction")
			}
			if r.St.AutoExpiration > 0 {
				c = append(c, "expiration-sweep")
			}
			if r.St.Loads > 0 {
				c = append(c, "load")
			}
			return c
		},
		Assumptions: []string{"the Go runtime and sync primitives are trusted", "values are unique per case so that every event names one write"},
	}
}

func TestC01_S1Conformance(t *testing.T) { s1Main(t, c01Spec()) }
