package props

import (
	"fmt"
	"testing"

	"github.com/maypok86/otter/v2"
	"github.com/maypok86/otter/v2/internal/verifhook"
	"github.com/maypok86/otter/v2/verifharness/vh"
	"pgregory.net/rapid"
)

// C18, cache-level clause: "A new arrival displaces the policy's victim only if its estimate is strictly greater,
// apart from the documented rare random admission of candidates with estimate of at least 6."
//
// The admission decisions of a real cache are observed through two verif observation points (entry of the main-space
// eviction pass, inputs of every admission comparison) interleaved with the Overflow removals reported to
// OnAtomicDeletion. Every comparison must be resolved by exactly one removal - the victim's iff the candidate's
// estimate justifies it - and an arrival that has displaced a victim has been admitted: it takes no further
// part in the pass, so each displaced resident is paid for by a different arrival.

type admOp struct {
	Kind string `json:"kind"` // set get run setmax
	Key  int    `json:"key,omitempty"`
	Rep  int    `json:"rep,omitempty"`
	N    int    `json:"n,omitempty"`
}

type admCase struct {
	Max      int     `json:"max"`
	Weighted bool    `json:"weighted"`
	Deferred bool    `json:"deferred_executor"`
	Ops      []admOp `json:"ops"`
}

func genAdmCase(t *rapid.T) admCase {
	c := admCase{
		Max:      pick(t, "max", 8, 16, 16, 32, 64, 100, 1000, 5000),
		Weighted: rapid.IntRange(0, 3).Draw(t, "weighted") == 0,
		Deferred: rapid.IntRange(0, 3).Draw(t, "deferred") != 0,
	}
	nkeys := min(c.Max*5/2, 400)
	hot := max(2, c.Max/2)
	opg := rapid.Custom(func(t *rapid.T) admOp {
		k := rapid.IntRange(0, 99).Draw(t, "kind")
		key := rapid.IntRange(0, nkeys-1).Draw(t, "key")
		if rapid.Bool().Draw(t, "hot") {
			key = rapid.IntRange(0, hot-1).Draw(t, "hotkey")
		}
		switch {
		case k < 50:
			return admOp{Kind: "set", Key: key}
		case k < 78:
			return admOp{Kind: "get", Key: key, Rep: rapid.IntRange(1, 8).Draw(t, "rep")}
		case k < 97:
			return admOp{Kind: "run"}
		default:
			if rapid.Bool().Draw(t, "tiny") {
				// below the weight of a heavy entry that may still sit in the admission window
				return admOp{Kind: "setmax", N: rapid.IntRange(1, max(2, c.Max/100)).Draw(t, "newmax")}
			}
			return admOp{Kind: "setmax", N: rapid.IntRange(1, c.Max).Draw(t, "newmax")}
		}
	})
	c.Ops = rapid.SliceOfN(opg, 20, 400).Draw(t, "ops")
	return c
}

type admEv struct {
	kind   string // begin window admit evict demote end
	c, v   int
	cf, vf int
	key    int
	keys   []int // window: the positive-weight entries of the admission window at the start of the pass
}

func runAdmCase(c admCase) outcome {
	var o outcome
	var trace []admEv
	verifhook.SetObserver(func(id string, args ...any) {
		switch id {
		case "policy.evictFromMain":
			trace = append(trace, admEv{kind: "begin"})
		case "policy.evictFromMain.done":
			trace = append(trace, admEv{kind: "end"})
		case "policy.window":
			ks := make([]int, 0, len(args))
			for _, a := range args {
				ks = append(ks, a.(int))
			}
			trace = append(trace, admEv{kind: "window", keys: ks})
		case "policy.demote":
			trace = append(trace, admEv{kind: "demote", key: args[0].(int)})
		case "policy.admit":
			trace = append(trace, admEv{kind: "admit", c: args[0].(int), v: args[1].(int), cf: toInt(args[2]), vf: toInt(args[3])})
		}
	})
	defer verifhook.SetObserver(nil)
	var q []func()
	opts := &otter.Options[int, int]{
		Executor: func(fn func()) {
			if c.Deferred {
				q = append(q, fn)
			} else {
				fn()
			}
		},
		OnAtomicDeletion: func(e otter.DeletionEvent[int, int]) {
			if e.Cause == otter.CauseOverflow {
				trace = append(trace, admEv{kind: "evict", key: e.Key})
			}
		},
	}
	if c.Weighted {
		opts.MaximumWeight = uint64(c.Max)
		opts.Weigher = func(k, v int) uint32 { return admWeight(c.Max, k) }
	} else {
		opts.MaximumSize = c.Max
	}
	cache := otter.Must(opts)
	run := func() {
		for i := 0; len(q) > 0 && i < 10000; i++ {
			f := q[0]
			q = q[1:]
			f()
		}
	}
	val := 0
	for _, op := range c.Ops {
		switch op.Kind {
		case "set":
			val++
			cache.Set(op.Key, val)
		case "get":
			for i := 0; i < op.Rep; i++ {
				cache.GetIfPresent(op.Key)
			}
		case "run":
			run()
			cache.CleanUp()
			run()
		case "setmax":
			cache.SetMaximum(uint64(op.N))
			run()
		}
	}
	run()
	cache.CleanUp()
	run()
	cache.StopAllGoroutines()

	// judge the trace pass by pass
	passes, admits, wins, multi, skipped, uncompared := 0, 0, 0, 0, 0, 0
	i := 0
	for i < len(trace) && o.Err == nil {
		if trace[i].kind != "begin" {
			i++
			continue
		}
		j := i + 1
		for j < len(trace) && trace[j].kind != "begin" && trace[j].kind != "end" {
			j++
		}
		pass := trace[i+1 : j]
		// the candidates of this pass: entries moved from the window to the probation queue right before it
		demoted := map[int]bool{}
		for d := i - 1; d >= 0 && trace[d].kind == "demote"; d-- {
			demoted[trace[d].key] = true
		}
		consumed := map[int]bool{}
		window := map[int]bool{} // candidates the pass falls back to once the demoted arrivals are used up
		i = j
		passes++
		var pending *admEv
		winners := map[int]bool{}
		nAdm, nWin, ok := 0, 0, true
		for x := range pass {
			ev := &pass[x]
			switch ev.kind {
			case "demote":
				continue
			case "window":
				for _, k := range ev.keys {
					window[k] = true
				}
				continue
			case "admit":
				if pending != nil {
					ok = false // two comparisons without a removal in between: not interpretable
				}
				pending = ev
				consumed[ev.c] = true
				nAdm++
			case "evict":
				consumed[ev.key] = true
				if pending == nil {
					// removed without a comparison: legitimate for a candidate (oversized, or no victim left) and, for a
					// resident, once no candidate is left - every arrival of this pass must have been judged or removed by then
					if !demoted[ev.key] && !window[ev.key] {
						for d := range demoted {
							if c.Weighted && admWeight(c.Max, d) == 0 {
								continue // a zero-weight entry is skipped, it is no arrival that has to be judged
							}
							if !consumed[d] {
								o.Err = fmt.Errorf("the resident key %d was evicted without any comparison while the arrival %d of the same pass had been neither compared with a victim nor removed: it displaced a resident without its estimate being consulted", ev.key, d)
								break
							}
						}
						// the same holds for the entries of the admission window: the pass takes its candidates from there once
						// the demoted arrivals are used up, and a resident goes uncompared only when no candidate is left at all
						for w := range window {
							if o.Err == nil && !consumed[w] {
								o.Err = fmt.Errorf("the resident key %d was evicted without any comparison while the entry %d of the admission window (positive weight, present when the pass began) had been neither compared with a victim nor removed", ev.key, w)
							}
						}
						if len(demoted)+len(window) > 0 {
							uncompared++
						}
					}
					continue
				}
				a := pending
				pending = nil
				switch ev.key {
				case a.v:
					nWin++
					if !(a.cf > a.vf) && a.cf < 6 {
						o.Err = fmt.Errorf("the resident key %d (estimate %d) was displaced by the arrival %d whose estimate %d is not greater (and below the random-admission threshold 6)", a.v, a.vf, a.c, a.cf)
					} else if winners[a.c] {
						o.Err = fmt.Errorf("in one eviction pass the arrival %d displaced a second resident (key %d): once admitted it must not take part in further comparisons, every displaced resident needs an arrival of its own", a.c, a.v)
					}
					winners[a.c] = true
				case a.c:
					if a.cf > a.vf {
						o.Err = fmt.Errorf("the arrival %d (estimate %d) was rejected in favour of the resident %d with the smaller estimate %d", a.c, a.cf, a.v, a.vf)
					}
				default:
					ok = false
				}
			}
			if o.Err != nil || !ok {
				break
			}
		}
		if !ok {
			skipped++
			continue
		}
		admits += nAdm
		wins += nWin
		if nAdm >= 2 && nWin >= 1 {
			multi++
		}
	}
	o.NonTrivial = multi > 0
	if passes > 0 {
		o.Classes = append(o.Classes, "eviction-pass")
	}
	if admits > 0 {
		o.Classes = append(o.Classes, "admission-comparison")
	}
	if wins > 0 {
		o.Classes = append(o.Classes, "arrival-admitted")
	}
	if multi > 0 {
		o.Classes = append(o.Classes, "pass-with-several-comparisons-and-an-admission")
	}
	if skipped > 0 {
		o.Classes = append(o.Classes, "uninterpretable-pass-skipped")
	}
	if uncompared > 0 {
		o.Classes = append(o.Classes, "resident-evicted-after-all-arrivals-were-judged")
	}
	o.Sig = vh.Sig(fmt.Sprint(c))
	return o
}

func toInt(v any) int {
	switch x := v.(type) {
	case int:
		return x
	case uint64:
		return int(x)
	case uint32:
		return int(x)
	case int64:
		return int(x)
	case uint8:
		return int(x)
	}
	return -1
}

func TestC18_Admission(t *testing.T) {
	propMain(t, propSpec[admCase]{
		Prop: "C18", Test: "Admission",
		Rule: "single-goroutine workloads of 20-400 operations on a real cache (MaximumSize or MaximumWeight 8..100, keys drawn from 2.5x the capacity with a hot subset, inline or queueing executor so that one maintenance pass handles several arrivals, occasional SetMaximum shrinks): Set, repeated GetIfPresent, RunTasks/CleanUp; " +
			"the admission comparisons (verif observation point in policy.admit: candidate, victim and both estimates) are interleaved with the Overflow removals reported to OnAtomicDeletion; oracle per eviction pass: every comparison is resolved by the removal of the victim only if the candidate's estimate is strictly greater (or >= 6: random admission), " +
			"by the removal of the candidate otherwise, and no arrival displaces two residents in one pass; non-trivial = a pass with >= 2 comparisons of which >= 1 admitted the arrival",
		Assumptions: []string{"the harness observes the inputs of policy.admit through a verif-tagged observation point; the decision itself is inferred from which of the two keys is reported removed next"},
		Gen:         genAdmCase, Run: runAdmCase,
	})
}

// admWeight: most entries weigh 1..3, some weigh nothing, every fifth key is heavy (a fifth of the capacity), so that lowering the maximum
// can leave an entry in the window that alone exceeds it.
func admWeight(max, k int) uint32 {
	if k%7 == 3 {
		return 0 // pinned: never a candidate, never a victim, skipped wherever the eviction cursors meet it
	}
	if k%5 == 0 {
		if max >= 1000 {
			return uint32(max / 125) // fits into the admission window (1% of the capacity) together with light arrivals
		}
		return uint32(max2(2, max/5))
	}
	return uint32(1 + k%3)
}

func max2(a, b int) int {
	if a > b {
		return a
	}
	return b
}
