package props

import (
	"fmt"
	"math"
	"sync"
	"sync/atomic"
	"testing"
	"time"

	"github.com/maypok86/otter/v2"
	"github.com/maypok86/otter/v2/internal/verifhook"
	"github.com/maypok86/otter/v2/verifharness/vh"
	"pgregory.net/rapid"
)

// C12 under concurrent readers, on the hook-point scheduler.
//
// "After every create or update an entry's expiration time equals the time of that operation plus the duration the
// calculator returned for it, and likewise for the refresh time." The sequential check reads an entry only after the
// write has returned. Here readers run while a write is still inside its calculator callbacks (the callbacks are
// scheduling points): whatever entry a reader is handed must already carry the deadlines of the write that installed its
// value - an entry that becomes visible before its deadlines were computed (published with inherited or placeholder
// deadlines) violates the statement for that reader.
//
// Values are unique; the calculators record, per value, opTime (the snapshot time of the entry they are asked about) plus
// the duration they return. Reads leave deadlines unchanged (write-reset policy), so the expected deadlines of a value
// never change after its write.

type c12sOp struct {
	Kind string `json:"kind"` // set setifabsent compute read readquiet advance
	Key  int    `json:"key"`
	D    int    `json:"d,omitempty"`
}

type c12sCase struct {
	Bound    int        `json:"bound"` // 0 none, 1 size, 2 weight
	Refresh  bool       `json:"refresh"`
	Threads  [][]c12sOp `json:"threads"`
	Schedule []int      `json:"schedule"`
}

func genC12S(t *rapid.T) c12sCase {
	c := c12sCase{Bound: pick(t, "bound", 0, 1, 2), Refresh: rapid.Bool().Draw(t, "refresh")}
	kinds := []string{"set", "set", "setifabsent", "compute", "read", "read", "read", "readquiet", "readquiet", "advance"}
	nt := rapid.IntRange(2, 3).Draw(t, "threads")
	for i := 0; i < nt; i++ {
		c.Threads = append(c.Threads, rapid.SliceOfN(rapid.Custom(func(t *rapid.T) c12sOp {
			return c12sOp{Kind: kinds[rapid.IntRange(0, len(kinds)-1).Draw(t, "kind")], Key: rapid.IntRange(0, 1).Draw(t, "key"), D: rapid.IntRange(0, 3).Draw(t, "d")}
		}), 1, 6).Draw(t, "ops"))
	}
	c.Schedule = rapid.SliceOfN(rapid.IntRange(0, 7), 0, 300).Draw(t, "schedule")
	return c
}

type c12sDeadlines struct {
	mu       sync.Mutex
	exp, ref map[int]int64 // value -> expected ExpiresAtNano / RefreshableAtNano
}

func (d *c12sDeadlines) set(m map[int]int64, v int, at int64) {
	d.mu.Lock()
	m[v] = at
	d.mu.Unlock()
}

var c12sTTL = []int64{1_000_000, 5_000_000_000, 3_600_000_000_000, 77}

type c12sExpiry struct{ d *c12sDeadlines }

func (e c12sExpiry) ExpireAfterCreate(en otter.Entry[int, int]) time.Duration {
	verifhook.Point("h.expireAfterCreate")
	t := c12sTTL[en.Value%4] * 1000
	e.d.set(e.d.exp, en.Value, en.SnapshotAtNano+t)
	return time.Duration(t)
}
func (e c12sExpiry) ExpireAfterUpdate(en otter.Entry[int, int], old int) time.Duration {
	verifhook.Point("h.expireAfterUpdate")
	t := c12sTTL[en.Value%4] * 1000
	e.d.set(e.d.exp, en.Value, en.SnapshotAtNano+t)
	return time.Duration(t)
}
func (e c12sExpiry) ExpireAfterRead(en otter.Entry[int, int]) time.Duration { return en.ExpiresAfter() }

type c12sRefresh struct{ d *c12sDeadlines }

func (e c12sRefresh) RefreshAfterCreate(en otter.Entry[int, int]) time.Duration {
	verifhook.Point("h.refreshAfterCreate")
	t := c12sTTL[(en.Value+1)%4] * 10
	e.d.set(e.d.ref, en.Value, en.SnapshotAtNano+t)
	return time.Duration(t)
}
func (e c12sRefresh) RefreshAfterUpdate(en otter.Entry[int, int], old int) time.Duration {
	verifhook.Point("h.refreshAfterUpdate")
	t := c12sTTL[(en.Value+1)%4] * 10
	e.d.set(e.d.ref, en.Value, en.SnapshotAtNano+t)
	return time.Duration(t)
}
func (e c12sRefresh) RefreshAfterReload(en otter.Entry[int, int], old int) time.Duration {
	return en.RefreshableAfter()
}
func (e c12sRefresh) RefreshAfterReloadFailure(en otter.Entry[int, int], err error) time.Duration {
	return en.RefreshableAfter()
}

func runC12S(c c12sCase) (o outcome) {
	s := vh.NewSched(c.Schedule)
	defer s.Close()
	clock := &vh.ManualClock{}
	clock.Set(1_700_000_000_000_000_000)
	d := &c12sDeadlines{exp: map[int]int64{}, ref: map[int]int64{}}
	opts := &otter.Options[int, int]{
		Clock: clock, Logger: &vh.RecLogger{}, Executor: func(fn func()) { fn() },
		ExpiryCalculator: c12sExpiry{d},
	}
	if c.Refresh {
		opts.RefreshCalculator = c12sRefresh{d}
	}
	switch c.Bound {
	case 1:
		opts.MaximumSize = 100
	case 2:
		opts.MaximumWeight = 1000
		opts.Weigher = func(k, v int) uint32 { return uint32(1 + v%3) }
	}
	cache := otter.Must(opts)
	defer cache.StopAllGoroutines()
	var valCtr atomic.Int64
	var bad atomic.Pointer[string]
	var during atomic.Int64
	var writing atomic.Int64 // writes currently inside the cache
	judge := func(what string, e otter.Entry[int, int]) {
		d.mu.Lock()
		wantExp, okE := d.exp[e.Value]
		wantRef, okR := d.ref[e.Value]
		d.mu.Unlock()
		if writing.Load() > 0 {
			during.Add(1)
		}
		var msg string
		switch {
		case !okE:
			msg = fmt.Sprintf("%s handed out the entry of value %d (key %d) with ExpiresAtNano %d before the expiry calculator had been asked about that value: the entry was published before its expiration time was computed", what, e.Value, e.Key, e.ExpiresAtNano)
		case e.ExpiresAtNano != wantExp:
			msg = fmt.Sprintf("%s: value %d (key %d) has ExpiresAtNano %d, its write computed %d", what, e.Value, e.Key, e.ExpiresAtNano, wantExp)
		case c.Refresh && !okR:
			msg = fmt.Sprintf("%s handed out the entry of value %d (key %d) with RefreshableAtNano %d before the refresh calculator had been asked about that value", what, e.Value, e.Key, e.RefreshableAtNano)
		case c.Refresh && e.RefreshableAtNano != wantRef:
			msg = fmt.Sprintf("%s: value %d (key %d) has RefreshableAtNano %d, its write computed %d", what, e.Value, e.Key, e.RefreshableAtNano, wantRef)
		case !c.Refresh && e.RefreshableAtNano != math.MaxInt64:
			msg = fmt.Sprintf("%s: RefreshableAtNano %d without a refresh policy", what, e.RefreshableAtNano)
		}
		if msg != "" {
			bad.CompareAndSwap(nil, &msg)
		}
	}
	for _, ops := range c.Threads {
		ops := ops
		s.Go("t", func() {
			for _, op := range ops {
				v := int(valCtr.Add(1))
				switch op.Kind {
				case "set":
					writing.Add(1)
					cache.Set(op.Key, v)
					writing.Add(-1)
				case "setifabsent":
					writing.Add(1)
					cache.SetIfAbsent(op.Key, v)
					writing.Add(-1)
				case "compute":
					writing.Add(1)
					cache.Compute(op.Key, func(old int, found bool) (int, otter.ComputeOp) { return v, otter.WriteOp })
					writing.Add(-1)
				case "read":
					if e, ok := cache.GetEntry(op.Key); ok {
						judge("GetEntry", e)
					}
				case "readquiet":
					if e, ok := cache.GetEntryQuietly(op.Key); ok {
						judge("GetEntryQuietly", e)
					}
				case "advance":
					clock.Advance([]int64{1, 1000, 2_000_000_000, 50}[op.D%4])
				}
			}
		})
	}
	panics := s.Run(5 * time.Second)
	if s.Hang {
		o.Inconcl = true
		return o
	}
	if len(panics) > 0 {
		o.Err = fmt.Errorf("a thread panicked: %v", panics[0])
		return o
	}
	tail := s.Trace
	if len(tail) > 50 {
		tail = tail[len(tail)-50:]
	}
	if m := bad.Load(); m != nil {
		o.Err = fmt.Errorf("%s; trace tail: %v", *m, tail)
		return o
	}
	o.NonTrivial = during.Load() > 0
	if during.Load() > 0 {
		o.Classes = append(o.Classes, "read-while-a-write-was-inside-the-cache")
	}
	o.Sig = vh.Sig(fmt.Sprint(c.Bound, c.Refresh, c.Threads), fmt.Sprint(s.Trace))
	return o
}

func TestC12_S3Published(t *testing.T) {
	propMain(t, propSpec[c12sCase]{
		Prop: "C12", Test: "S3Published",
		Rule: "hook-point cooperative scheduling: 2-3 threads with 1-6 operations each over 2 keys (Set, SetIfAbsent, Compute writes; GetEntry and GetEntryQuietly readers; clock advances) on expiring caches (unbounded / size / weight bounded, with or without a refresh calculator, write-reset calculators whose hooks are scheduling points and record, per unique value, operation time + returned duration); " +
			"oracle for every entry a reader is handed, also while the write that installs it is still inside its calculator callbacks: ExpiresAtNano and RefreshableAtNano equal what that write computed - an entry visible before its deadlines were computed is a violation; non-trivial = at least one read while a write was inside the cache",
		Assumptions: []string{"interleavings are explored at hook-point granularity; the watchdog can only add legal concurrency", "reads leave deadlines unchanged in these configurations"},
		Gen:         genC12S, Run: runC12S,
	})
}
