package props

import (
	"context"
	"fmt"
	"math/rand"
	"runtime"
	"sync"
	"sync/atomic"
	"testing"
	"time"

	"github.com/maypok86/otter/v2"
	"github.com/maypok86/otter/v2/verifharness/vh"
	"pgregory.net/rapid"
)

// C09, free-running, with writes that hold the bucket lock for a while.
//
// The deterministic write-placement world (synctest) cannot park a finished load on the bucket lock of a write that is
// still inside its table computation: a goroutine waiting for a mutex is not durably blocked. Here that window is sampled
// instead. Per key there is ONE writer goroutine (so the order of the explicit writes is known) and one loading goroutine.
// Every loader invocation stamps its entry with a global counter, every explicit write stamps its start. After each of
// its writes has returned, the writer looks the key up:
//
//	a load whose loader had been entered before the write began was in flight when the write started, so the write
//	supersedes it: the key must never hold that load's value once the write has returned.
//
// Loads entered after the write began may legitimately install afterwards. This holds under every schedule.

type lwCase struct {
	Pairs   int   `json:"pairs"`  // writer/loader pairs, one key each per round
	Rounds  int   `json:"rounds"` // fresh keys every round
	Writes  int   `json:"writes_per_round"`
	Refresh bool  `json:"refresh"` // the loads are Refresh calls of a present key (reloads) instead of Gets of an absent key
	HoldUs  int   `json:"hold_us"` // how long a slow write keeps its bucket locked (inside its Compute function)
	LoadUs  int   `json:"load_us"` // how long a loader takes
	Procs   int   `json:"gomaxprocs"`
	Noise   int   `json:"noise"`
	Seed    int64 `json:"seed"`
}

func genLW(t *rapid.T) lwCase {
	return lwCase{
		Pairs:   rapid.IntRange(1, 8).Draw(t, "pairs"),
		Rounds:  rapid.IntRange(5, 40).Draw(t, "rounds"),
		Writes:  rapid.IntRange(1, 6).Draw(t, "writes"),
		Refresh: rapid.Bool().Draw(t, "refresh"),
		HoldUs:  pick(t, "hold", 0, 20, 100, 300),
		LoadUs:  pick(t, "load", 0, 10, 60),
		Procs:   pick(t, "procs", 16, 8, 4),
		Noise:   pick(t, "noise", 0, 1),
		Seed:    rapid.Int64().Draw(t, "seed"),
	}
}

func runLW(c lwCase) (o outcome) {
	defer runtime.GOMAXPROCS(runtime.GOMAXPROCS(c.Procs))
	if c.Noise > 0 {
		defer vh.InstallNoise(uint64(c.Seed), 300, 0)()
	}
	opts := &otter.Options[int, int]{Logger: &vh.RecLogger{}}
	if c.Refresh {
		opts.RefreshCalculator = otter.RefreshWriting[int, int](time.Hour)
	}
	cache := otter.Must(opts)
	defer cache.StopAllGoroutines()
	var stamp atomic.Int64
	var valCtr atomic.Int64
	var enteredAt sync.Map // loaded value -> stamp of its loader's entry
	spin := func(us int) {
		if us <= 0 {
			return
		}
		end := time.Now().Add(time.Duration(us) * time.Microsecond)
		for time.Now().Before(end) {
			runtime.Gosched()
		}
	}
	loader := otter.LoaderFunc[int, int](func(ctx context.Context, k int) (int, error) {
		v := int(valCtr.Add(1))*2 + 1 // loaded values are odd
		enteredAt.Store(v, stamp.Add(1))
		spin(c.LoadUs)
		return v, nil
	})
	var bad atomic.Pointer[string]
	var superseded, slowWrites atomic.Int64
	for r := 0; r < c.Rounds && bad.Load() == nil; r++ {
		var wg sync.WaitGroup
		for p := 0; p < c.Pairs; p++ {
			k := r*100 + p
			if c.Refresh {
				cache.Set(k, int(valCtr.Add(1))*2)
			}
			var stop atomic.Bool
			wg.Add(2)
			go func() { // the loading side
				defer wg.Done()
				for !stop.Load() {
					if c.Refresh {
						if ch := cache.Refresh(context.Background(), k, loader); ch != nil {
							<-ch
						}
					} else {
						_, _ = cache.Get(context.Background(), k, loader)
					}
				}
			}()
			go func(p int) { // the only writer of key k
				defer wg.Done()
				defer stop.Store(true)
				rng := rand.New(rand.NewSource(c.Seed + int64(r)*131 + int64(p)))
				for i := 0; i < c.Writes && bad.Load() == nil; i++ {
					spin(rng.Intn(c.LoadUs + c.HoldUs + 5))
					began := stamp.Add(1)
					kind := rng.Intn(6)
					wv := int(valCtr.Add(1)) * 2 // written values are even
					what := ""
					switch kind {
					case 0:
						what = "Invalidate"
						cache.Invalidate(k)
					case 1:
						what = fmt.Sprintf("Set(%d)", wv)
						cache.Set(k, wv)
					case 2, 3:
						what = "Compute(slow function, InvalidateOp)"
						slowWrites.Add(1)
						cache.Compute(k, func(old int, found bool) (int, otter.ComputeOp) {
							spin(c.HoldUs) // the bucket stays locked: a load that finishes now has to wait for it
							return 0, otter.InvalidateOp
						})
					default:
						what = fmt.Sprintf("Compute(slow function, WriteOp %d)", wv)
						slowWrites.Add(1)
						cache.Compute(k, func(old int, found bool) (int, otter.ComputeOp) {
							spin(c.HoldUs)
							return wv, otter.WriteOp
						})
					}
					// several looks: the superseded load may still be on its way to the table
					for look := 0; look < 4; look++ {
						if look > 0 {
							spin(5 + c.LoadUs)
						}
						e, ok := cache.GetEntryQuietly(k)
						if !ok || e.Value%2 == 0 {
							continue
						}
						if at, _ := enteredAt.Load(e.Value); at != nil && at.(int64) < began {
							s := fmt.Sprintf("key %d: %s began at stamp %d and has returned, yet the key holds %d, the result of a load whose loader had been entered at stamp %d, i.e. before that write began: a load was installed over a newer %s",
								k, what, began, e.Value, at.(int64), map[bool]string{true: "invalidation", false: "write"}[kind == 0 || kind == 2 || kind == 3])
							bad.CompareAndSwap(nil, &s)
							return
						}
					}
					// how many loads did this write supersede? (entered before it began, not installed)
					superseded.Add(1)
				}
			}(p)
		}
		wg.Wait()
	}
	if s := bad.Load(); s != nil {
		o.Err = fmt.Errorf("%s", *s)
		return o
	}
	o.NonTrivial = slowWrites.Load() > 0 && c.HoldUs > 0
	if c.Refresh {
		o.Classes = append(o.Classes, "reloads-of-present-keys")
	} else {
		o.Classes = append(o.Classes, "loads-of-absent-keys")
	}
	if c.HoldUs > 0 {
		o.Classes = append(o.Classes, "writes-holding-the-bucket-lock")
	}
	o.Sig = vh.Sig(fmt.Sprint(c))
	return o
}

func TestC09_S4SlowWrites(t *testing.T) {
	propMain(t, propSpec[lwCase]{
		Prop: "C09", Test: "S4SlowWrites",
		Rule: "free-running: per key one loading goroutine (Get of an absent key, or Refresh of a present one, in a loop; loaders stamp their entry with a global counter and take 0-60 us) and ONE writer goroutine issuing 1-6 explicit writes (Invalidate, Set, and Compute calls whose function keeps the bucket locked for 0-300 us before returning InvalidateOp / WriteOp), 1-8 such pairs in parallel on fresh keys for 5-40 rounds, GOMAXPROCS 4-16; " +
			"oracle (every schedule): once an explicit write has returned, the key never holds the value of a load whose loader had been entered before that write began (looked up four times after every write); non-trivial = slow writes with a non-zero hold time",
		Assumptions: []string{"schedules are sampled by the Go runtime, not enumerated", "one writer per key, so the order of the explicit writes is the writer's program order"},
		Gen:         genLW, Run: runLW,
	})
}
