package props

import (
	"fmt"
	"runtime"
	"sync"
	"sync/atomic"
	"testing"
	"time"

	"github.com/maypok86/otter/v2"
	"github.com/maypok86/otter/v2/verifharness/vh"
	"pgregory.net/rapid"
)

// C17's last sentence: "Dropping reads never changes what any cache operation returns." A read whose recording the lossy
// buffer refuses - because the ring is full, or because the CAS on its tail was lost to another reader - is still a read:
// with an access-based expiry it moves the entry's deadline, and the entry it returns says so. Here many goroutines read
// concurrently (the CAS is lost often: optional yields between reading the tail and the CAS), each only its OWN keys, under
// ExpiryAccessing and a clock that only moves forward; whatever happens to the recording, every entry a reader is handed
// must carry ExpiresAtNano == SnapshotAtNano + ttl, and no reader may ever miss its own key (nobody removes it, and it
// is read far more often than once per ttl).

type rxCase struct {
	Readers int   `json:"readers"`
	Reads   int   `json:"reads_per_reader"`
	Keys    int   `json:"keys_per_reader"`
	Bound   bool  `json:"bounded"`
	Procs   int   `json:"gomaxprocs"`
	Noise   int   `json:"noise"`
	Seed    int64 `json:"seed"`
}

func genRX(t *rapid.T) rxCase {
	return rxCase{
		Readers: rapid.IntRange(2, 64).Draw(t, "readers"),
		Reads:   rapid.IntRange(200, 5000).Draw(t, "reads"),
		Keys:    rapid.IntRange(1, 3).Draw(t, "keys"),
		Bound:   rapid.Bool().Draw(t, "bound"),
		Procs:   pick(t, "procs", 16, 16, 8, 3),
		Noise:   pick(t, "noise", 0, 1, 1),
		Seed:    rapid.Int64().Draw(t, "seed"),
	}
}

type rxClock struct{ now atomic.Int64 }

func (c *rxClock) NowNano() int64                      { return c.now.Add(1) }
func (c *rxClock) Tick(time.Duration) <-chan time.Time { return nil }

func runRX(c rxCase) outcome {
	var o outcome
	if c.Procs > 0 {
		defer runtime.GOMAXPROCS(runtime.GOMAXPROCS(c.Procs))
	}
	if c.Noise > 0 {
		defer vh.InstallNoise(uint64(c.Seed), 150, 0)()
	}
	const ttl = int64(1) << 40 // far more clock readings than the whole case makes
	clock := &rxClock{}
	clock.now.Store(1 << 20)
	opts := &otter.Options[int, int]{
		Clock:            clock,
		ExpiryCalculator: otter.ExpiryAccessing[int, int](time.Duration(ttl)),
		Logger:           &vh.RecLogger{},
	}
	if c.Bound {
		opts.MaximumSize = c.Readers*c.Keys + 100 // never full: nothing is evicted
	}
	cache := otter.Must(opts)
	defer cache.StopAllGoroutines()
	for k := 0; k < c.Readers*c.Keys; k++ {
		cache.Set(k, k)
	}
	cache.CleanUp()
	var bad atomic.Pointer[string]
	var start, done sync.WaitGroup
	start.Add(1)
	for g := 0; g < c.Readers; g++ {
		done.Add(1)
		go func(g int) {
			defer done.Done()
			start.Wait()
			for i := 0; i < c.Reads && bad.Load() == nil; i++ {
				k := g*c.Keys + i%c.Keys
				e, ok := cache.GetEntry(k)
				if !ok {
					s := fmt.Sprintf("reader %d: GetEntry(%d) missed its own key on read %d (nobody removes it and its lifetime is 2^40 clock readings)", g, k, i)
					bad.CompareAndSwap(nil, &s)
					return
				}
				if e.ExpiresAtNano != e.SnapshotAtNano+ttl {
					s := fmt.Sprintf("reader %d: GetEntry(%d) on read %d returned an entry with ExpiresAtNano %d at snapshot time %d: the read did not move the deadline to snapshot + ttl = %d (only this reader touches the key)", g, k, i, e.ExpiresAtNano, e.SnapshotAtNano, e.SnapshotAtNano+ttl)
					bad.CompareAndSwap(nil, &s)
					return
				}
			}
		}(g)
	}
	start.Done()
	done.Wait()
	if s := bad.Load(); s != nil {
		o.Err = fmt.Errorf("%s", *s)
		return o
	}
	o.NonTrivial = c.Readers >= 8
	if c.Readers >= 32 {
		o.Classes = append(o.Classes, "readers>=32")
	}
	o.Sig = vh.Sig(fmt.Sprint(c))
	return o
}

func TestC17_S4ReadExtends(t *testing.T) {
	propMain(t, propSpec[rxCase]{
		Prop: "C17", Test: "S4ReadExtends",
		Rule: "free-running: 2-64 readers call GetEntry 200-5000 times each on their own 1-3 keys of a cache with ExpiryAccessing (unbounded or never full) and a clock that advances with every reading, GOMAXPROCS 3-16, optional yields between reading a ring's tail and the CAS (lost CASes, full rings: recordings are refused all the time); " +
			"oracle (every schedule): no reader misses its own key and every returned entry has ExpiresAtNano == SnapshotAtNano + ttl - a refused or dropped recording changes nothing a call returns; non-trivial = >= 8 readers",
		Assumptions: []string{"schedules are sampled by the Go runtime, not enumerated"},
		Gen:         genRX, Run: runRX,
	})
}
