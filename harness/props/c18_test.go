package props

import (
	"fmt"
	"testing"

	"github.com/maypok86/otter/v2"
	"github.com/maypok86/otter/v2/verifharness/vh"
	"pgregory.net/rapid"
)

type sketchOp struct {
	Kind string `json:"kind"` // inc, ensure, reset, admit
	Key  int    `json:"key,omitempty"`
	Key2 int    `json:"key2,omitempty"`
	N    uint64 `json:"n,omitempty"`
	Rep  int    `json:"rep,omitempty"`
	R    uint32 `json:"r,omitempty"`
}

type sketchCase struct {
	Strings bool       `json:"strings"`
	Ops     []sketchOp `json:"ops"`
}

func genSketchCase(t *rapid.T) sketchCase {
	var c sketchCase
	c.Strings = rapid.Bool().Draw(t, "strings")
	nkeys := rapid.IntRange(1, 200).Draw(t, "nkeys")
	opg := rapid.Custom(func(t *rapid.T) sketchOp {
		k := rapid.IntRange(0, 99).Draw(t, "kind")
		switch {
		case k < 70:
			return sketchOp{Kind: "inc", Key: rapid.IntRange(0, nkeys-1).Draw(t, "key"), Rep: rapid.IntRange(1, 40).Draw(t, "rep")}
		case k < 82:
			cls := rapid.IntRange(0, 6).Draw(t, "capcls")
			var n uint64
			switch cls {
			case 0:
				n = 0 // replaced by the current table length at run time
			case 1:
				n = 1 // replaced by half the table length
			case 2:
				n = uint64(rapid.IntRange(1, 64).Draw(t, "cap"))
			case 3:
				n = uint64(1) << rapid.IntRange(3, 16).Draw(t, "capp2")
			case 6:
				// just around a power of two, up to 2^21: the table length is the capacity rounded up to a power of two
				// (bit-smearing tricks go wrong for values slightly above 2^16 and beyond)
				n = uint64(int64(1)<<rapid.IntRange(3, 21).Draw(t, "capk") + int64(rapid.IntRange(-2, 17).Draw(t, "capd")))
			default:
				n = uint64(rapid.IntRange(2, 100000).Draw(t, "cap"))
			}
			return sketchOp{Kind: "ensure", N: n, Rep: cls}
		case k < 88:
			return sketchOp{Kind: "reset"}
		default:
			return sketchOp{Kind: "admit", Key: rapid.IntRange(0, nkeys-1).Draw(t, "c"), Key2: rapid.IntRange(0, nkeys+3).Draw(t, "v"),
				R: pickU32(t)}
		}
	})
	c.Ops = rapid.SliceOfN(opg, 1, 200).Draw(t, "ops")
	return c
}

func pickU32(t *rapid.T) uint32 {
	if rapid.Bool().Draw(t, "r0") {
		return uint32(rapid.IntRange(0, 3).Draw(t, "rhi")) << 7 // low 7 bits zero: the rare random admission
	}
	return rapid.Uint32().Draw(t, "r")
}

type sketchIface interface {
	EnsureCapacity(uint64)
	Reset()
	Size() uint64
	SampleSize() uint64
	TableLen() int
	IsNotInitialized() bool
}

func runSketch[K comparable](c sketchCase, mk func(int) K) outcome {
	s := otter.NewVerifSketch[K]()
	var o outcome
	lb := map[int]uint64{} // lower bound of the estimate within the current sampling period
	maxKey := 0
	sawReset, sawGrow, nonP2, beforeInit := false, false, false, false
	kinds := ""
	check := func(where string) error {
		for k, l := range lb {
			f := s.Frequency(mk(k))
			if f > 15 {
				return fmt.Errorf("%s: estimate of key %d is %d > 15", where, k, f)
			}
			if f < l {
				return fmt.Errorf("%s: key %d was recorded at least %d times in this period (capped/aged) but its estimate is %d [table %d, size %d/%d]", where, k, l, f, s.TableLen(), s.Size(), s.SampleSize())
			}
		}
		return nil
	}
	for i, op := range c.Ops {
		kinds += op.Kind[:1]
		switch op.Kind {
		case "inc":
			if op.Key > maxKey {
				maxKey = op.Key
			}
			for j := 0; j < op.Rep; j++ {
				if s.IsNotInitialized() {
					beforeInit = true
					s.Increment(mk(op.Key))
					if f := s.Frequency(mk(op.Key)); f != 0 {
						o.Err = fmt.Errorf("op %d: estimate %d before frequency tracking is enabled", i, f)
						return o
					}
					continue
				}
				before := s.Size()
				s.Increment(mk(op.Key))
				after := s.Size()
				if l := lb[op.Key]; l < 15 {
					lb[op.Key] = l + 1
				}
				if after < before {
					// an automatic aging step happened inside this increment
					sawReset = true
					for k := range lb {
						lb[k] >>= 1
					}
				}
				if f := s.Frequency(mk(op.Key)); f < lb[op.Key] || f > 15 {
					o.Err = fmt.Errorf("op %d: key %d recorded >= %d times in this period but estimate is %d [table %d size %d/%d]", i, op.Key, lb[op.Key], f, s.TableLen(), after, s.SampleSize())
					return o
				}
			}
		case "ensure":
			n := op.N
			switch op.Rep {
			case 0:
				n = uint64(s.TableLen())
			case 1:
				n = uint64(s.TableLen() / 2)
			}
			if n&(n-1) != 0 {
				nonP2 = true
			}
			oldLen := s.TableLen()
			s.EnsureCapacity(n)
			if uint64(oldLen) >= n {
				// documented no-op: the table is large enough, nothing may be forgotten
				if s.TableLen() != oldLen {
					o.Err = fmt.Errorf("op %d: ensureCapacity(%d) changed the table length %d -> %d", i, n, oldLen, s.TableLen())
					return o
				}
			} else {
				sawGrow = true
				lb = map[int]uint64{}
				if s.IsNotInitialized() {
					o.Err = fmt.Errorf("op %d: ensureCapacity(%d) left the sketch uninitialized", i, n)
					return o
				}
				if uint64(s.TableLen()) < n || s.TableLen() < 8 || s.TableLen()&(s.TableLen()-1) != 0 {
					o.Err = fmt.Errorf("op %d: ensureCapacity(%d) produced table length %d", i, n, s.TableLen())
					return o
				}
			}
		case "reset":
			if s.IsNotInitialized() {
				continue
			}
			fb := map[int]uint64{}
			for k := 0; k <= maxKey+3; k++ {
				fb[k] = s.Frequency(mk(k))
			}
			s.Reset()
			sawReset = true
			for k, f := range fb {
				if g := s.Frequency(mk(k)); g != f>>1 {
					o.Err = fmt.Errorf("op %d: aging step turned the estimate of key %d from %d into %d, want %d", i, k, f, g, f>>1)
					return o
				}
			}
			for k := range lb {
				lb[k] >>= 1
			}
		case "admit":
			fc, fv := s.Frequency(mk(op.Key)), s.Frequency(mk(op.Key2))
			got := otter.VerifAdmit(s, mk(op.Key), mk(op.Key2), op.R)
			want := fc > fv || (fc >= 6 && op.R&127 == 0)
			if got != want {
				o.Err = fmt.Errorf("op %d: admit(candidate freq %d, victim freq %d, random %#x) = %v, want %v", i, fc, fv, op.R, got, want)
				return o
			}
		}
		if s.IsNotInitialized() {
			for k := 0; k < 4; k++ {
				if f := s.Frequency(mk(k)); f != 0 {
					o.Err = fmt.Errorf("op %d: estimate %d before frequency tracking is enabled", i, f)
					return o
				}
			}
		} else if i%8 == 7 || i == len(c.Ops)-1 {
			if err := check(fmt.Sprintf("after op %d (%s)", i, op.Kind)); err != nil {
				o.Err = err
				return o
			}
		}
	}
	multi := false
	for _, l := range lb {
		if l >= 2 {
			multi = true
		}
	}
	o.NonTrivial = (multi && len(lb) >= 2) || sawReset
	if sawReset {
		o.Classes = append(o.Classes, "aging-step")
	}
	if sawGrow {
		o.Classes = append(o.Classes, "table-grown")
	}
	if nonP2 {
		o.Classes = append(o.Classes, "non-power-of-two-capacity")
	}
	if beforeInit {
		o.Classes = append(o.Classes, "recorded-before-init")
	}
	if c.Strings {
		o.Classes = append(o.Classes, "string-keys")
	} else {
		o.Classes = append(o.Classes, "int-keys")
	}
	o.Sig = vh.Sig(kinds, fmt.Sprint(c.Strings, len(lb), s.TableLen()))
	return o
}

func TestC18_Sketch(t *testing.T) {
	propMain(t, propSpec[sketchCase]{
		Prop: "C18", Test: "Sketch",
		Rule: "generated sequences (1-200 ops) of increment bursts over 1-200 int or string keys, ensureCapacity calls (the current table length, half of it, small, powers of two, arbitrary up to 1e5), explicit aging steps and admission queries with an injected random word, on a fresh sketch (fresh random hash seed) per case; " +
			"oracle: estimate 0 before initialisation; within a sampling period min(recorded,15) <= estimate <= 15 for every key (automatic aging steps are detected through the size counter and halve the bound); ensureCapacity(n <= table length) forgets nothing; an aging step maps every estimate f to f>>1; " +
			"admit(c,v,r) == (freq(c) > freq(v)) || (freq(c) >= 6 && r&127 == 0); non-trivial = >= 2 keys with one recorded >= 2 times, or an aging step; distinct = op-kind sequence + key kind + key count + table length",
		Assumptions: []string{"the sketch is reached through the verif-tag export VerifSketch/VerifAdmit, which call the unexported functions unchanged"},
		Gen:         genSketchCase,
		Run: func(c sketchCase) outcome {
			if c.Strings {
				return runSketch(c, func(i int) string { return fmt.Sprintf("key-%d", i) })
			}
			return runSketch(c, func(i int) int { return i })
		},
	})
}
