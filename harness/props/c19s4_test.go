package props

import (
	"bytes"
	"fmt"
	"runtime"
	"sync"
	"sync/atomic"
	"testing"

	"github.com/maypok86/otter/v2"
	"github.com/maypok86/otter/v2/verifharness/vh"
	"pgregory.net/rapid"
)

// C19 with bystanders: the cache is saved while other goroutines only *look at* it (GetMaximum, WeightedSize,
// EstimatedSize, GetIfPresent, GetEntryQuietly, Stats). Every write has returned before the save starts and nothing
// writes while it runs, so the contents are fixed; what varies is who holds the eviction lock when SaveCacheTo asks
// for it, and whether the writes have been replayed on the policy by then (queued or goroutine executor).

type slrCase struct {
	Weighted bool  `json:"weighted"`
	Max      int   `json:"max"`
	Keys     int   `json:"keys"`
	Exec     int   `json:"executor"` // 0 caller-runs, 1 goroutine per task, 2 queued (tasks held until the end of the round)
	Readers  int   `json:"readers"`
	Rounds   int   `json:"rounds"`
	Procs    int   `json:"gomaxprocs"`
	Seed     int64 `json:"seed"`
}

func genSLR(t *rapid.T) slrCase {
	c := slrCase{
		Weighted: rapid.Bool().Draw(t, "weighted"),
		Keys:     rapid.IntRange(1, 60).Draw(t, "keys"),
		Exec:     pick(t, "exec", 0, 1, 2, 2),
		Readers:  rapid.IntRange(1, 4).Draw(t, "readers"),
		Rounds:   rapid.IntRange(1, 12).Draw(t, "rounds"),
		Procs:    pick(t, "procs", 16, 4, 2),
		Seed:     rapid.Int64().Draw(t, "seed"),
	}
	c.Max = c.Keys*3 + rapid.IntRange(0, 100).Draw(t, "slack") // everything fits: nothing may be missing after the reload
	return c
}

func runSLR(c slrCase) (o outcome) {
	defer runtime.GOMAXPROCS(runtime.GOMAXPROCS(c.Procs))
	var qmu sync.Mutex
	var queue []func()
	var execWG sync.WaitGroup
	mk := func() *otter.Cache[int, int] {
		opts := &otter.Options[int, int]{Logger: &vh.RecLogger{}}
		if c.Weighted {
			opts.MaximumWeight = uint64(c.Max)
			opts.Weigher = func(k, v int) uint32 { return uint32(1 + k%3) }
		} else {
			opts.MaximumSize = c.Max
		}
		switch c.Exec {
		case 0:
			opts.Executor = func(f func()) { f() }
		case 1:
			opts.Executor = func(f func()) { execWG.Add(1); go func() { defer execWG.Done(); f() }() }
		case 2:
			opts.Executor = func(f func()) { qmu.Lock(); queue = append(queue, f); qmu.Unlock() }
		}
		return otter.Must(opts)
	}
	src := mk()
	defer src.StopAllGoroutines()
	want := map[int]int{}
	seq := 0
	lostRounds := 0
	for round := 0; round < c.Rounds; round++ {
		// writes: all of them return before the save begins
		for i := 0; i < c.Keys; i++ {
			if (int(c.Seed)+round+i)%3 != 0 {
				seq++
				src.Set(i, seq)
				want[i] = seq
			}
		}
		if round%4 == 3 {
			k := round % c.Keys
			src.Invalidate(k)
			delete(want, k)
		}
		var stop atomic.Bool
		var wg sync.WaitGroup
		for r := 0; r < c.Readers; r++ {
			wg.Add(1)
			go func(r int) {
				defer wg.Done()
				for i := 0; !stop.Load(); i++ {
					switch (i + r) % 5 {
					case 0:
						src.GetMaximum()
					case 1:
						src.WeightedSize()
					case 2:
						src.EstimatedSize()
					case 3:
						src.GetIfPresent(i % c.Keys)
					default:
						src.GetEntryQuietly(i % c.Keys)
					}
				}
			}(r)
		}
		runtime.Gosched()
		var buf bytes.Buffer
		err := otter.SaveCacheTo(src, &buf)
		stop.Store(true)
		wg.Wait()
		if err != nil {
			o.Err = fmt.Errorf("round %d: SaveCacheTo: %v", round, err)
			return o
		}
		dst := mk()
		if err := otter.LoadCacheFrom(dst, &buf); err != nil {
			dst.StopAllGoroutines()
			o.Err = fmt.Errorf("round %d: LoadCacheFrom: %v", round, err)
			return o
		}
		got := map[int]int{}
		for k, v := range dst.All() {
			got[k] = v
		}
		dst.StopAllGoroutines()
		for k, v := range want {
			if g, ok := got[k]; !ok || g != v {
				o.Err = fmt.Errorf("round %d: key %d was live with value %d when the cache was saved (its write had returned, nothing wrote during the save, total weight fits the maximum %d) but the reloaded cache holds (%d,%v); saved %d of %d entries",
					round, k, v, c.Max, g, ok, len(got), len(want))
				return o
			}
		}
		for k, v := range got {
			if w, ok := want[k]; !ok || w != v {
				o.Err = fmt.Errorf("round %d: the reloaded cache holds (%d,%d) which was not live when the cache was saved (live: %v)", round, k, v, want[k])
				return o
			}
		}
		if len(got) != len(want) {
			lostRounds++
		}
		// end of the round: let the held tasks run
		qmu.Lock()
		q := queue
		queue = nil
		qmu.Unlock()
		for _, f := range q {
			f()
		}
		execWG.Wait()
	}
	o.NonTrivial = c.Rounds >= 2 && c.Exec != 0
	o.Classes = append(o.Classes, fmt.Sprintf("executor:%d", c.Exec))
	o.Sig = vh.Sig(fmt.Sprint(c))
	return o
}

func TestC19_S4Readers(t *testing.T) {
	propMain(t, propSpec[slrCase]{
		Prop: "C19", Test: "S4Readers",
		Rule: "free-running: 1-12 rounds of writes (all returned before the save starts) on a size- or weight-bounded cache whose maximum exceeds everything written, with a caller-runs / goroutine / queueing executor (so the writes may not have been replayed on the eviction policy yet); " +
			"during SaveCacheTo 1-4 bystander goroutines only read (GetMaximum, WeightedSize, EstimatedSize, GetIfPresent, GetEntryQuietly), i.e. they compete for the eviction lock without changing the contents; the stream is loaded into a fresh cache of the same configuration; " +
			"oracle: the reloaded contents equal the live contents exactly (nothing missing, nothing extra); non-trivial = >= 2 rounds with an executor that delays maintenance",
		Assumptions: []string{"schedules are sampled by the Go runtime, not enumerated", "no expiration policy here (deadlines under clock offsets are judged by the scripted check)"},
		Gen:         genSLR, Run: runSLR,
	})
}
