package props

import (
	"testing"

	"github.com/anishathalye/porcupine"
	"github.com/maypok86/otter/v2"
	"pgregory.net/rapid"
)

func TestSmoke(t *testing.T) {
	_ = porcupine.Ok
	rapid.Check(t, func(t *rapid.T) {
		c := otter.Must(&otter.Options[int, int]{MaximumSize: 10})
		k := rapid.IntRange(0, 5).Draw(t, "k")
		c.Set(k, 1)
		if v, ok := c.GetIfPresent(k); !ok || v != 1 {
			t.Fatalf("bad")
		}
		_ = c.VerifDrainStatus()
	})
}
